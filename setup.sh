#!/bin/sh
# Builds the gosym engine offline from files on disk only.
set -e
export GOFLAGS=-mod=mod GOPROXY=off GOSUMDB=off GOTOOLCHAIN=local
D=$(cd "$(dirname "$0")" && pwd)
mkdir -p "$D/bin" "$D/evidence"
cd "$D/engine"
go build -o "$D/bin/check" .
echo "built $D/bin/check"
