#!/bin/sh
exit 0
