#!/bin/sh
# Builds the gosym engine offline from files on disk only.
set -e
export GOFLAGS=-mod=mod GOPROXY=off GOSUMDB=off GOTOOLCHAIN=local
cd /verif/engine
mkdir -p /verif/bin /verif/evidence
go build -o /verif/bin/check .
echo "built /verif/bin/check"
