#!/usr/bin/env python3
# Runs the repository's suite (guard off) and compares with /root/.vp/BASELINE.json stable_pass.
import json,subprocess,sys,os
b=json.load(open('/root/.vp/BASELINE.json'))
want=set(b['stable_pass'])
env=dict(os.environ,GOFLAGS='-mod=mod',GOPROXY='off')
p=subprocess.run(['go','test','-json','-vet=off','-count=1','-timeout','25m','./...'],cwd=sys.argv[1] if len(sys.argv)>1 else '/repo',capture_output=True,text=True,env=env)
passed=set()
for line in p.stdout.splitlines():
    try: e=json.loads(line)
    except: continue
    if e.get('Action')=='pass' and e.get('Test'):
        passed.add(e['Package']+'::'+e['Test'])
missing=sorted(want-passed)
print('baseline',len(want),'passed now',len(passed),'missing',len(missing))
for m in missing[:20]: print('  MISSING',m)
sys.exit(1 if missing else 0)
