#!/usr/bin/env python3
import json,glob,os
rows=[]
for m in sorted(glob.glob('/verif/seeded/*/meta.json')):
    d=json.load(open(m)); n=os.path.basename(os.path.dirname(m))
    c=d['confirmed']; ok=c['demo_fails_with_patch'] and c['suite_passes_with_patch'] and c['demo_passes_without_patch']
    rows.append((n,d['property'],ok,', '.join(d['detected_by']) or 'NOT DETECTED',' '.join(d.get('description','').split())[:260]))
out='# Seeded changes\n\nEach change was written by an independent sub-agent that saw only the property text and a scratch worktree. "confirmed" = the demonstration fails with the patch, passes without it, and the repository suite (6393 tests) still passes with the patch - all re-run here by tools/seed_verify.sh.\n\n| seeded change | property | confirmed | caught by (quick tier) | what it does |\n|---|---|---|---|---|\n'
for r in rows: out+='| %s | %s | %s | %s | %s |\n'%(r[0],r[1],'yes' if r[2] else 'NO',r[3],r[4].replace('|','\\|'))
open('/verif/seeded/SUMMARY.md','w').write(out)
print(out)
