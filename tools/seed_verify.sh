#!/bin/bash
# usage: seed_verify.sh <PROP> <srcdir> <n> [check ids...]
# Confirms a seeded mutant in a scratch worktree (suite still passes, demo fails with / passes without),
# then runs the given checks against /repo with the patch applied, and records the result under /verif/seeded.
set -u
P=$1; SRC=$2; N=$3; shift 3
CHECKS=${@:-$P}
export GOFLAGS=-mod=mod GOPROXY=off GOSUMDB=off
DIFF=$SRC/mutant$N.diff; DEMO=$SRC/demo${N}_test.go.txt
DIR=$(head -1 $DEMO | sed 's#// dir: *##')
OUT=/verif/seeded/$P-$N; mkdir -p $OUT
cp $DIFF $OUT/patch.diff; cp $DEMO $OUT/demo_test.go.txt; cp $SRC/mutant$N.txt $OUT/description.txt 2>/dev/null
res() { echo "$1" | tee -a $OUT/log.txt; }
: > $OUT/log.txt
if [ -f /tmp/m2-confirm/$P-$N.txt ]; then
  # confirmation already done in a scratch worktree by seed_confirm.sh (same three steps)
  read W B WO REST < /tmp/m2-confirm/$P-$N.txt
  [ "$W" = "noapply" ] && { res "patch does not apply"; exit 2; }
  res "demo with patch exit=$W (expect !=0); suite with patch: $REST exit=$B (expect 0); demo without patch exit=$WO (expect 0)"
else
WT=/tmp/seedwt-$P-$N
rm -rf $WT; git -C /repo worktree prune; git -C /repo worktree add -q --detach $WT HEAD || exit 2
( cd $WT && git apply $DIFF ) || { res "patch does not apply"; exit 2; }
cp $DEMO $WT/$DIR/zz_demo_test.go
( cd $WT/$DIR && go test -vet=off -count=1 -run . . > /tmp/demo_with.log 2>&1 ); W=$?
rm -f $WT/$DIR/zz_demo_test.go
python3 /verif/tools/baseline.py $WT > /tmp/base.log 2>&1; B=$?
( cd $WT && git checkout -q -- . )
cp $DEMO $WT/$DIR/zz_demo_test.go
( cd $WT/$DIR && go test -vet=off -count=1 -run . . > /tmp/demo_without.log 2>&1 ); WO=$?
rm -f $WT/$DIR/zz_demo_test.go
res "demo with patch exit=$W (expect !=0); suite with patch: $(tail -1 /tmp/base.log) exit=$B (expect 0); demo without patch exit=$WO (expect 0)"
git -C /repo worktree remove --force $WT
fi
DET=""
( cd /repo && ( git apply $DIFF || git apply -3 $DIFF ) ) || { res "patch does not apply to /repo"; ( cd /repo && git checkout -q HEAD -- . ); exit 2; }
for C in $CHECKS; do
  ( cd /verif && timeout 1500 bin/check $C > /tmp/seed_check.log 2>&1 ); E=$?
  V=$(grep -c '^VIOLATION' /tmp/seed_check.log)
  res "check $C exit=$E violations=$V $(grep -A1 '^VIOLATION' /tmp/seed_check.log | grep -v '^VIOLATION\|^--' | head -2 | cut -c1-200 | tr '\n' ' ')"
  [ $E -eq 1 ] && DET="$DET $C"
done
( cd /repo && git checkout -q HEAD -- . )
python3 - <<PY
import json
json.dump({"property":"$P","mutant":$N,"source":"independent sub-agent given only the property text and a scratch worktree","confirmed":{"demo_fails_with_patch":$W!=0,"suite_passes_with_patch":$B==0,"demo_passes_without_patch":$WO==0},"checks_run":"$CHECKS".split(),"detected_by":"$DET".split(),"description":open("$OUT/description.txt").read() if __import__('os').path.exists("$OUT/description.txt") else ""},open("$OUT/meta.json","w"),indent=1)
PY
res "detected_by:$DET"
