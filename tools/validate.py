import json,sys,jsonschema,glob
s=json.load(open('/root/.vp/EVIDENCE.schema.json'))
for f in sorted(glob.glob('/verif/evidence/*.json')):
    e=json.load(open(f)); jsonschema.validate(e,s)
    c=e['coverage']; print(f.split('/')[-1], e['tier'], 'states',c['states'],'holds',c.get('holds'),'validated',c['traces_validated_against_impl'],'wall',round(e['wall_s']))
m=json.load(open('/verif/MANIFEST.json')); jsonschema.validate(m,json.load(open('/root/.vp/MANIFEST.schema.json'))); print('manifest ok', len(m['checks']),'checks')
