#!/bin/sh
# Runs every check's thorough tier against a snapshot of /repo (VP_RUN_REPO) from the current directory.
D=$(pwd)
./setup.sh || exit 2
export VERIF_DIR=$D VERIF_REPO=${VP_RUN_REPO:-/repo}
for id in "$@"; do
  s=$(date +%s)
  timeout 7000 bin/check $id --tier thorough > thorough-$id.log 2>&1
  e=$?
  echo "$id exit=$e $(( $(date +%s) - s ))s $(grep -c '^VIOLATION' thorough-$id.log) violations; $(grep -c '^INCONCLUSIVE' thorough-$id.log) inconclusive; $(tail -1 thorough-$id.log | cut -c1-120)"
done
