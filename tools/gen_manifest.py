#!/usr/bin/env python3
# Regenerates /verif/MANIFEST.json from checks.json and tools/manifest_text.json.
import json
props=[json.loads(l) for l in open('/verif/properties.jsonl')]
checks={c['id']:c for c in json.load(open('/verif/checks.json'))}
text=json.load(open('/verif/tools/manifest_text.json'))
m={"version":1,
 "setup_cmd":"cd /verif && ./setup.sh",
 "hooks":{"guard":"verif",
  "enable":"no hook is committed into /repo: harness files (//go:build verif) under /verif/harness/<pkg path>/ are injected as overlay files by go/packages (engine) and by `go test -c -tags verif -overlay` (native replay)",
  "baseline_off_cmd":"cd /repo && go test -mod=mod -json -vet=off -count=1 -timeout 25m ./...",
  "source_commits":[],"add_only":True},
 "engines":[{"name":"gosym","path":"/verif/engine","serves_properties":sorted(checks.keys()),
   "kind_free_text":"symbolic executor for go/ssa written for this task: the library's real functions are executed path-wise from SSA regenerated from /repo on every run, inputs are SMT bit-vector variables, z3 decides every data-dependent branch and every assertion, models are replayed against the natively compiled tree"}],
 "checks":[], "not_applicable":[],
 "notes":"All checks: `bin/check <ID> --tier quick|thorough`. Evidence level model_checking (bounded). See DESIGN.md."}
for p in props:
    pid=p['id']
    if pid in checks and pid in text and not text[pid].get('not_applicable'):
        t=text[pid]
        m['checks'].append({"property_id":pid,
          "quick_cmd":"cd /verif && bin/check %s --tier quick"%pid,
          "thorough_cmd":"cd /verif && bin/check %s --tier thorough"%pid,
          "evidence_file":"/verif/evidence/%s.json"%pid,
          "replay_cmd_template":"cd /verif && bin/check replay {path}/replay.json",
          "engine":"gosym",
          "level_claimed":{"category":"model_checking","text":t['level_text'],"design_ref":t.get('design_ref','DESIGN.md section 6 '+pid)},
          "level_note":t['level_note'],
          "technique":t.get('technique',"symbolic execution of the real go/ssa with z3 deciding branches and assertions (bounded), native replay of models")})
    else:
        reason=text.get(pid,{}).get('not_applicable') or "check not built yet (build round in progress); see DESIGN.md section 6"
        m['not_applicable'].append({"property_id":pid,"reason":reason})
json.dump(m,open('/verif/MANIFEST.json','w'),indent=1)
print(len(m['checks']),'checks;',len(m['not_applicable']),'not applicable')
