//go:build verif

package zzverif

import (
	"github.com/jsightapi/jsight-schema-go-library/formats/json"
	"github.com/jsightapi/jsight-schema-go-library/notations/jschema"
	"github.com/jsightapi/jsight-schema-go-library/zzverif/gen"
	"github.com/jsightapi/jsight-schema-go-library/zzverif/v"
)

// ---- a small algebra of document sets (the reference semantics of C03)

type ty interface{ ok(d *gen.Doc) bool }

type tInt struct{}
type tStr struct{ min int }
type tBool struct{}
type tNull struct{}
type tAnyT struct{}
type tUnion []ty
type tArr struct{ elems []ty } // like an example array: last element governs further positions
type tObj struct {
	keys []string
	vals []ty
	opt  []bool
	ap   ty   // type of additional properties; nil = forbidden
	ks   *tStr // key shortcut: keys accepted by this string type ...
	ksv  ty    // ... carry values of this type
	pre  []byte // several key shortcuts: a key starting with pre[i] ...
	prev []ty   // ... carries a value of type prev[i]; every such entry is required
}

func (tInt) ok(d *gen.Doc) bool  { return d.Kind == gen.KInt }
func (t tStr) ok(d *gen.Doc) bool { return d.Kind == gen.KStr && len(d.Lit)-2 >= t.min }
func (tBool) ok(d *gen.Doc) bool { return d.Kind == gen.KBool }
func (tNull) ok(d *gen.Doc) bool { return d.Kind == gen.KNull }
func (tAnyT) ok(d *gen.Doc) bool { return true }
func (t tUnion) ok(d *gen.Doc) bool {
	for _, m := range t {
		if m.ok(d) {
			return true
		}
	}
	return false
}
func (t tArr) ok(d *gen.Doc) bool {
	if d.Kind != gen.KArr {
		return false
	}
	if len(t.elems) == 0 {
		return len(d.Kids) == 0
	}
	for i, k := range d.Kids {
		j := i
		if j >= len(t.elems) {
			j = len(t.elems) - 1
		}
		if !t.elems[j].ok(k) {
			return false
		}
	}
	return true
}
func (t tObj) ok(d *gen.Doc) bool {
	if d.Kind != gen.KObj {
		return false
	}
	seen := make([]bool, len(t.keys))
	ksSeen := false
	preSeen := make([]bool, len(t.pre))
	for i, k := range d.Kids {
		key := string(d.Keys[i])
		found := -1
		for j, tk := range t.keys {
			if tk == key {
				found = j
			}
		}
		switch {
		case found >= 0:
			seen[found] = true
			if !t.vals[found].ok(k) {
				return false
			}
		case len(t.pre) > 0:
			hit := -1
			for q := range t.pre {
				if len(key) > 0 && key[0] == t.pre[q] {
					hit = q
				}
			}
			if hit < 0 {
				return false
			}
			preSeen[hit] = true
			if !t.prev[hit].ok(k) {
				return false
			}
		case t.ks != nil && len(key) >= t.ks.min:
			ksSeen = true
			if !t.ksv.ok(k) {
				return false
			}
		case t.ap != nil:
			if !t.ap.ok(k) {
				return false
			}
		default:
			return false
		}
	}
	for j := range t.keys {
		if !seen[j] && !t.opt[j] {
			return false
		}
	}
	if t.ks != nil && !ksSeen {
		return false // the shortcut entry is a required property
	}
	for q := range preSeen {
		if !preSeen[q] {
			return false
		}
	}
	return true
}

type c03Case struct {
	root  string
	types [][2]string
	sem   ty
	keys  []string // keys worth trying in documents
}

var (
	c03I  = tInt{}
	c03S2 = tStr{2}
	c03O  = tObj{keys: []string{"p"}, vals: []ty{tInt{}}, opt: []bool{false}}
	c03O2 = tObj{keys: []string{"q"}, vals: []ty{tStr{0}}, opt: []bool{true}}
)

var c03Types = [][2]string{{"@ka", `"a1" // {regex: "^a"}`}, {"@kb", `"b1" // {regex: "^b"}`}, {"@P", `{"a": 1}`}, {"@Q", `{"b": 1}`}, {"@C", "{ // {allOf: [\"@P\", \"@Q\"]}\n  \"v\": 1 // {optional: true}\n}"}, {"@i", `1`}, {"@s", `"xy" // {minLength: 2}`}, {"@o", `{"p": 1}`}, {"@o2", "{\n  \"q\": \"s\" // {optional: true}\n}"}, {"@k", `"kk" // {minLength: 2}`}}

var c03Cases = []c03Case{
	{`@i`, nil, c03I, nil},
	{`@i | @s`, nil, tUnion{c03I, c03S2}, nil},
	{`@s | @i | @s`, nil, tUnion{c03I, c03S2}, nil},
	{`@o | @o2`, nil, tUnion{c03O, c03O2}, []string{"p", "q"}},
	{`1 // {or: ["@i", "string"]}`, nil, tUnion{c03I, tStr{0}}, nil},
	{`"ab" // {or: [{type: "integer"}, {type: "string", minLength: 2}]}`, nil, tUnion{c03I, c03S2}, nil},
	{`@o // {nullable: true}`, nil, tUnion{c03O, tNull{}}, []string{"p"}},
	{`1 // {type: "@i", nullable: true}`, nil, tUnion{c03I, tNull{}}, nil},
	{"{\n  \"a\": @i | @s,\n  \"b\": @o // {optional: true}\n}", nil, tObj{keys: []string{"a", "b"}, vals: []ty{tUnion{c03I, c03S2}, c03O}, opt: []bool{false, true}}, []string{"a", "b", "p"}},
	{"[\n  @i,\n  @s\n]", nil, tArr{[]ty{c03I, c03S2}}, nil},
	{"{ // {allOf: \"@o\"}\n  \"own\": \"s\"\n}", nil, tObj{keys: []string{"own", "p"}, vals: []ty{tStr{0}, tInt{}}, opt: []bool{false, false}}, []string{"own", "p"}},
	{"{ // {allOf: [\"@o\", \"@o2\"]}\n  \"own\": 1 // {optional: true}\n}", nil, tObj{keys: []string{"own", "p", "q"}, vals: []ty{tInt{}, tInt{}, tStr{0}}, opt: []bool{true, false, true}}, []string{"own", "p", "q"}},
	{"{ // {additionalProperties: true}\n  \"a\": 1\n}", nil, tObj{keys: []string{"a"}, vals: []ty{tInt{}}, opt: []bool{false}, ap: tAnyT{}}, []string{"a", "zz"}},
	{"{ // {additionalProperties: \"string\"}\n  \"a\": 1\n}", nil, tObj{keys: []string{"a"}, vals: []ty{tInt{}}, opt: []bool{false}, ap: tStr{0}}, []string{"a", "zz"}},
	{"{ // {additionalProperties: \"@s\"}\n  \"a\": 1\n}", nil, tObj{keys: []string{"a"}, vals: []ty{tInt{}}, opt: []bool{false}, ap: c03S2}, []string{"a", "zz"}},
	{"{ // {additionalProperties: false}\n  \"a\": 1 // {optional: true}\n}", nil, tObj{keys: []string{"a"}, vals: []ty{tInt{}}, opt: []bool{true}}, []string{"a", "zz"}},
	{"{\n  @ka: 1,\n  @kb: \"s\"\n}", nil, tObj{pre: []byte{'a', 'b'}, prev: []ty{tInt{}, tStr{0}}}, []string{"a1", "b1", "c1"}},
	{"{\n  \"c\": @C,\n  \"p\": @P\n}", nil, tObj{keys: []string{"c", "p"}, vals: []ty{
		tObj{keys: []string{"v", "a", "b"}, vals: []ty{tInt{}, tInt{}, tInt{}}, opt: []bool{true, false, false}},
		tObj{keys: []string{"a"}, vals: []ty{tInt{}}, opt: []bool{false}}}, opt: []bool{false, false}}, []string{"c", "p", "a", "b"}},
	{"{\n  @k: 1,\n  \"b\": \"s\" // {optional: true}\n}", nil, tObj{keys: []string{"b"}, vals: []ty{tStr{0}}, opt: []bool{true}, ks: &tStr{2}, ksv: tInt{}}, []string{"b", "kk", "z"}},
}

func dInt(s string) *gen.Doc { return &gen.Doc{Kind: gen.KInt, Lit: []byte(s)} }
func dStr(s string) *gen.Doc { return &gen.Doc{Kind: gen.KStr, Lit: []byte(`"` + s + `"`)} }
func dObj(kv ...interface{}) *gen.Doc {
	d := &gen.Doc{Kind: gen.KObj}
	for i := 0; i+1 < len(kv); i += 2 {
		d.Keys = append(d.Keys, []byte(kv[i].(string)))
		d.Kids = append(d.Kids, kv[i+1].(*gen.Doc))
	}
	return d
}

// c03Extra: hand-built documents (deeper nesting, particular key orders) tried for a case
// in addition to the generated ones; keyed by the case's root text.
func c03Extra(root string) []*gen.Doc {
	switch root {
	case "{\n  \"c\": @C,\n  \"p\": @P\n}":
		return []*gen.Doc{
			dObj("c", dObj("a", dInt("1"), "b", dInt("2")), "p", dObj("a", dInt("1"))),
			dObj("p", dObj("a", dInt("1")), "c", dObj("b", dInt("2"), "a", dInt("1"), "v", dInt("3"))),
			dObj("c", dObj("a", dInt("1")), "p", dObj("a", dInt("1"))),
			dObj("c", dObj("a", dInt("1"), "b", dInt("2")), "p", dObj("a", dInt("1"), "b", dInt("2"))),
			dObj("c", dObj("a", dInt("1"), "b", dInt("2")), "p", dObj()),
		}
	case "{\n  @ka: 1,\n  @kb: \"s\"\n}":
		return []*gen.Doc{
			dObj("b1", dStr("s"), "a1", dInt("1")),
			dObj("a1", dInt("1"), "b1", dStr("s")),
			dObj("b7", dStr("s"), "b8", dStr("t"), "a2", dInt("1")),
			dObj("b1", dInt("1"), "a1", dStr("s")),
			dObj("b1", dStr("s")),
		}
	case "{\n  \"a\": @i | @s,\n  \"b\": @o // {optional: true}\n}":
		return []*gen.Doc{
			dObj("b", dObj("p", dInt("1")), "a", dStr("xy")),
			dObj("a", dInt("3"), "b", dObj("p", dStr("x"))),
			dObj("a", dInt("3"), "b", dObj()),
		}
	}
	return nil
}

func c03Scalar() *gen.Doc {
	switch v.Choose(0, 3) {
	case 0:
		return &gen.Doc{Kind: gen.KInt, Lit: smallLit(gen.KInt)}
	case 1:
		n := v.Choose(0, 2)
		lit := []byte{'"'}
		for i := 0; i < n; i++ {
			c := v.Byte()
			v.Assume(c >= 0x20 && c < 0x7f && c != '"' && c != '\\')
			lit = append(lit, c)
		}
		return &gen.Doc{Kind: gen.KStr, Lit: append(lit, '"')}
	case 2:
		return &gen.Doc{Kind: gen.KNull, Lit: bs("null")}
	}
	return &gen.Doc{Kind: gen.KBool, Lit: bs("true")}
}

func c03Doc(keys []string, depth int) *gen.Doc {
	hi := 5
	if depth == 0 {
		hi = 3
	}
	switch k := v.Choose(0, hi); {
	case k <= 3:
		return c03ScalarK(k)
	case k == 4:
		d := &gen.Doc{Kind: gen.KObj}
		if len(keys) == 0 {
			keys = []string{"p"}
		}
		n := v.Choose(0, 2)
		used := -1
		for i := 0; i < n; i++ {
			j := v.Choose(used+1, len(keys)-1+i-(n-1))
			used = j
			d.Keys = append(d.Keys, bs(keys[j]))
			d.Kids = append(d.Kids, c03Doc(keys, depth-1))
		}
		return d
	}
	d := &gen.Doc{Kind: gen.KArr}
	n := v.Choose(0, 3)
	for i := 0; i < n; i++ {
		d.Kids = append(d.Kids, c03Doc(keys, 0))
	}
	return d
}

func c03ScalarK(k int) *gen.Doc {
	switch k {
	case 0:
		return &gen.Doc{Kind: gen.KInt, Lit: smallLit(gen.KInt)}
	case 1:
		n := v.Choose(0, 2)
		lit := []byte{'"'}
		for i := 0; i < n; i++ {
			c := v.Byte()
			v.Assume(c >= 0x20 && c < 0x7f && c != '"' && c != '\\')
			lit = append(lit, c)
		}
		return &gen.Doc{Kind: gen.KStr, Lit: append(lit, '"')}
	case 2:
		return &gen.Doc{Kind: gen.KNull, Lit: bs("null")}
	}
	return &gen.Doc{Kind: gen.KBool, Lit: bs("true")}
}

// ZZC03: a value position naming user types accepts exactly the union of the
// documents accepted by the named types; allOf, additionalProperties and key
// shortcuts compose as stated.
func ZZC03() {
	c := c03Cases[v.Choose(0, len(c03Cases)-1)]
	v.Observe("schema", c.root)
	s := jschema.New("s", c.root)
	for _, t := range c03Types {
		v.Assert(s.AddType(t[0], jschema.New(t[0], t[1])) == nil, "C03/addtype-failed")
	}
	cerr := s.Check()
	v.Assert(cerr == nil, "C03/case-rejected-by-check")
	if cerr != nil {
		return
	}
	var d *gen.Doc
	if ex := c03Extra(c.root); len(ex) > 0 && v.Choose(0, 1) == 1 {
		d = ex[v.Choose(0, len(ex)-1)]
		v.Reach("C03/hand-built-document")
	} else {
		d = c03Doc(c.keys, 1)
	}
	dt := gen.JSON(d)
	v.Observe("doc", dt)
	verr := s.Validate(json.New("d", dt))
	if c.sem.ok(d) {
		v.Reach("C03/accept")
		v.Assert(verr == nil, "C03/member-of-the-union-rejected")
	} else {
		v.Reach("C03/reject")
		v.Assert(verr != nil, "C03/non-member-accepted")
	}
}

func init() { ZZHarnesses["ZZC03"] = ZZC03 }
