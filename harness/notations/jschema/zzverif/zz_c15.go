//go:build verif

package zzverif

import (
	jerr "github.com/jsightapi/jsight-schema-go-library/errors"
	"github.com/jsightapi/jsight-schema-go-library/formats/json"
	"github.com/jsightapi/jsight-schema-go-library/notations/jschema"
	"github.com/jsightapi/jsight-schema-go-library/zzverif/gen"
	"github.com/jsightapi/jsight-schema-go-library/zzverif/v"
)

func eqBytes(a, b []byte) bool {
	if len(a) != len(b) {
		return false
	}
	for i := range a {
		if a[i] != b[i] {
			return false
		}
	}
	return true
}

// keyText: an object key source text: plain symbolic byte(s) or with an escape.
func keyText() []byte {
	switch v.Choose(0, 4) {
	case 0:
		return bs("a")
	case 1:
		c := v.Byte()
		v.Assume(c >= 0x20 && c < 0x7f && c != '"' && c != '\\')
		return []byte{'k', c}
	case 2:
		return bs(`a\"b`)
	case 3:
		return bs(`a\\b`)
	}
	return bs(`a\nb`)
}

func c15Scalar() *gen.Ex { return c15ScalarN(int(gen.KStr)) }

func c15Small() *gen.Ex {
	if v.Param("rich", 0) != 0 {
		return c15Scalar()
	}
	if v.Choose(0, 1) == 0 {
		return &gen.Ex{Kind: gen.KInt, Lit: smallLit(gen.KInt)}
	}
	return &gen.Ex{Kind: gen.KStr, Lit: smallLit(gen.KStr)}
}

func c15ScalarN(maxKind int) *gen.Ex {
	k := gen.Kind(v.Choose(int(gen.KNull), maxKind))
	var lit []byte
	if k == gen.KStr {
		lit, _ = docString(2, v.Param("piecekinds", 6))
	} else {
		lit = gen.ScalarLit(k)
	}
	return &gen.Ex{Kind: k, Lit: lit}
}

// ZZC15Plain: for a plain-JSON example the result is the example without
// annotations and insignificant white space, well-formed, and accepted.
func ZZC15Plain() {
	var root *gen.Ex
	switch v.Choose(0, 3) {
	case 0:
		root = c15Scalar()
	case 1:
		root = &gen.Ex{Kind: gen.KObj}
		n := v.Choose(0, 2)
		for i := 0; i < n; i++ {
			key := keyText()
			if i == 1 {
				key = bs("z")
			}
			root.Keys = append(root.Keys, key)
			root.Kids = append(root.Kids, c15Small())
		}
	case 2:
		root = &gen.Ex{Kind: gen.KArr}
		n := v.Choose(0, 2)
		for i := 0; i < n; i++ {
			root.Kids = append(root.Kids, c15Small())
		}
	case 3:
		inner := &gen.Ex{Kind: gen.KArr, Kids: []*gen.Ex{c15Small()}}
		root = &gen.Ex{Kind: gen.KObj, Keys: [][]byte{keyText()}, Kids: []*gen.Ex{inner}}
		if v.Choose(0, 1) == 1 {
			root.Kids[0].Rules = []gen.Rule{{Name: "minItems", Value: bs("1")}}
			root.Kids[0].Kids[0].Nullable = 1
		}
	}
	st := gen.Schema(root)
	want := gen.JSON(gen.ExampleDoc(root))
	v.Observe("schema", st)
	s := jschema.New("s", st)
	v.Assume(s.Check() == nil)
	ex, err := s.Example()
	v.Assert(err == nil, "C15/example-error-on-accepted-schema")
	if err != nil {
		return
	}
	v.Observe("example", ex)
	v.Reach("C15/plain")
	v.Assert(gen.JSONText(ex), "C15/example-is-not-well-formed-json")
	v.Assert(eqBytes(ex, want), "C15/example-differs-from-plain-json-example")
	v.Assert(s.Validate(json.New("d", ex)) == nil, "C15/example-rejected-by-its-own-schema")
}

type c15Case struct {
	root  string
	types [][2]string
}

const c15ShortcutOrRoot = `@a // {or: ["string", "integer"]}`

const c15OverlapRoot = "{\n  @plain: 1,\n  @ruled: 2, // the third key fits this type as well\n  @plain2: 3\n}"

var c15Cases = []c15Case{
	{`@t`, [][2]string{{"@t", `12`}}},
	{`@t`, [][2]string{{"@t", `{"a": "x"}`}}},
	{"{\n  \"a\": @t\n}", [][2]string{{"@t", `[1, 2]`}}},
	{"[\n  @t\n]", [][2]string{{"@t", `"s"`}}},
	{`@a | @b`, [][2]string{{"@a", `1`}, {"@b", `"s"`}}},
	{`1 // {or: ["@a", "string"]}`, [][2]string{{"@a", `1`}}},
	{`"x" // {or: [{type: "integer"}, {type: "string", minLength: 1}]}`, nil},
	{`2 // {enum: [1, 2, "a"]}`, nil},
	{"{ // {allOf: \"@base\"}\n  \"own\": 1\n}", [][2]string{{"@base", `{"inherited": "v"}`}}},
	{"{\n  @k: 1\n}", [][2]string{{"@k", `"key" // {minLength: 1}`}}},
	{"{\n  @k: 1,\n  \"b\": 2\n}", [][2]string{{"@k", `"key" // {regex: "^k"}`}}},
	{`@t`, [][2]string{{"@t", "{\n  \"v\": 1,\n  \"next\": @t // {optional: true}\n}"}}},
	{`@t`, [][2]string{{"@t", "{\n  \"next\": @t, // {optional: true}\n  \"v\": 1\n}"}}},
	{`@t`, [][2]string{{"@t", "{\n  \"kids\": [\n    @t\n  ]\n}"}}},
	{`@t`, [][2]string{{"@t", "{\n  \"a\": 1,\n  \"kids\": [\n    @t\n  ],\n  \"next\": @t // {optional: true}\n}"}}},
	{"{\n  \"a\": @t, // {optional: true}\n  \"b\": @u\n}", [][2]string{{"@t", `1`}, {"@u", `{"c": @t}`}}},
	{`@t`, [][2]string{{"@t", "{\n  \"l\": @t, // {optional: true}\n  \"r\": @t // {optional: true}\n}"}}},
	{"{ // {additionalProperties: \"@t\"}\n  \"a\": 1\n}", [][2]string{{"@t", `true`}}},
	{`@t // {nullable: true}`, [][2]string{{"@t", `{"a": null}`}}},
	{"[\n  @a | @b\n]", [][2]string{{"@a", `{"x": 1}`}, {"@b", `[]`}}},
	{"{\n  @k: 1,\n  \"z\": 2\n}", [][2]string{{"@k", `"a\"" // {regex: "a."}`}}},
	{`@t`, [][2]string{{"@t", "{\n  \"kids\": [\n    @t,\n    1\n  ]\n}"}}},
	{`@t`, [][2]string{{"@t", "{\n  \"kids\": [\n    1,\n    @t\n  ]\n}"}}},
	{`{} // {or: [{type: "object"}, {type: "string"}]}`, nil},
	{`[] // {or: [{type: "array"}, {type: "string"}]}`, nil},
	{"{\n  \"k\": [] // {or: [{type: \"array\"}, {type: \"integer\"}], optional: true}\n}", nil},
	{`{} // {or: [{type: "object"}, {type: "string"}], nullable: true}`, nil},
	{`12 // {type: "@t", nullable: true}`, [][2]string{{"@t", `12 // {min: 10}`}}},
	{"{\n  \"v\": 12 // {or: [{type: \"@t\", nullable: true}, \"@u\"]}\n}", [][2]string{{"@t", `12 // {min: 10}`}, {"@u", `"abc"`}}},
	{"{\n  @k: 1\n}", [][2]string{{"@k", `@k | @s`}, {"@s", `"abc"`}}},
	// keys written with escape sequences and inherited through allOf
	{"{ // {allOf: \"@base\"}\n  \"own\": 1\n}", [][2]string{{"@base", "{\n  \"a\\\"b\": 1,\n  \"c\\\\d\": 2,\n  \"e\\nf\": 3\n}"}}},
	{"{ // {allOf: [\"@base\", \"@b2\"]}\n}", [][2]string{{"@base", "{\n  \"t\\tab\": 1\n}"}, {"@b2", "{\n  \"q\\\"\": \"v\"\n}"}}},
	// a type that is only another name for a recursive type, used after that type was cut off twice
	{"{\n  \"a\": @node,\n  \"b\": @node,\n  \"c\": @link\n}", [][2]string{{"@link", `@node`}, {"@node", "{\n  \"child\": @node, // {optional: true}\n  \"next\": @link // {optional: true}\n}"}}},
	{"{\n  \"a\": @link,\n  \"b\": @node,\n  \"c\": @link,\n  \"d\": @l2\n}", [][2]string{{"@link", `@node | @leaf`}, {"@l2", `@link`}, {"@leaf", `1`}, {"@node", "{\n  \"child\": @node, // {optional: true}\n  \"next\": @link // {optional: true}\n}"}}},
	{"[\n  @node,\n  @link,\n  @node,\n  @link\n]", [][2]string{{"@link", `@node`}, {"@node", "{\n  \"kids\": [\n    @link\n  ]\n}"}}},
	// mutual recursion closed by an optional property: the cut goes where the optional property is
	{`@a`, [][2]string{{"@a", "{\n  \"x\": @b // {optional: true}\n}"}, {"@b", "{\n  \"y\": @a\n}"}}},
	{`@b`, [][2]string{{"@a", "{\n  \"x\": @b // {optional: true}\n}"}, {"@b", "{\n  \"y\": @a\n}"}}},
	{"{\n  \"p\": @a,\n  \"q\": @b\n}", [][2]string{{"@a", "{\n  \"x\": @b // {optional: true}\n}"}, {"@b", "{\n  \"y\": @a,\n  \"z\": 1\n}"}}},
	{`@a`, [][2]string{{"@a", "{\n  \"l\": [\n    @b\n  ]\n}"}, {"@b", "{\n  \"y\": @a,\n  \"w\": @c\n}"}, {"@c", "{\n  \"v\": @b | @d\n}"}, {"@d", `1`}}},
	// several key shortcuts whose key types carry rules
	{"{\n  @id: 1,\n  @name: \"x\"\n}", [][2]string{{"@id", `"id-1" // {regex: "id-[0-9]+"}`}, {"@name", `"name_a" // {regex: "name_[a-z]+"}`}}},
	{"{\n  @id: 1,\n  @name: \"x\",\n  @third: true\n}", [][2]string{{"@id", `"ab" // {minLength: 2, maxLength: 2}`}, {"@name", `"abc" // {minLength: 3}`}, {"@third", `"q" // {enum: ["q", "r"]}`}}},
	{"{\n  @plain: 1,\n  @ruled: 2,\n  @plain2: 3\n}", [][2]string{{"@plain", `"p"`}, {"@ruled", `"rr" // {minLength: 2}`}, {"@plain2", `"z"`}}},
	// a type shortcut next to an or rule of built-in types (known finding: Example answers "Loader error")
	{c15ShortcutOrRoot, [][2]string{{"@a", `1`}}},
	// ... and one whose example key also fits the key type of a shortcut declared earlier (known finding)
	{c15OverlapRoot, [][2]string{{"@plain", `"p"`}, {"@ruled", `"rr" // {minLength: 2}`}, {"@plain2", `"zzz"`}}},
	// a list of alternatives that also spells out its type
	{`@a | @b // {type: "mixed"}`, [][2]string{{"@a", `1`}, {"@b", `"s"`}}},
	{"{\n  \"x\": @a | @b // {type: \"mixed\"}\n}", [][2]string{{"@a", `{"y": 1}`}, {"@b", `"s"`}}},
	{"[\n  @a | @b // {type: \"mixed\"}\n]", [][2]string{{"@a", `[1]`}, {"@b", `true`}}},
	{`1 // {type: "mixed", or: ["@a", "@b"]}`, [][2]string{{"@a", `1`}, {"@b", `"s"`}}},
}

// ZZC15Types: user types, or, enum, allOf, key shortcuts, optional recursion.
func ZZC15Types() {
	c := c15Cases[v.Choose(0, len(c15Cases)-1)]
	v.Observe("schema", c.root)
	if c.root == c15ShortcutOrRoot {
		v.Observe("overlap", "type-shortcut-with-or-rule-of-built-in-types")
	}
	if c.root == c15OverlapRoot {
		v.Observe("overlap", "example-key-fits-an-earlier-key-shortcut")
	}
	s := jschema.New("s", c.root)
	for _, t := range c.types {
		v.Assert(s.AddType(t[0], jschema.New(t[0], t[1])) == nil, "C15/addtype-failed")
	}
	cerr := s.Check()
	v.Assert(cerr == nil, "C15/case-rejected-by-check")
	if cerr != nil {
		return
	}
	ex, err := s.Example()
	v.Assert(err == nil, "C15/example-error-on-accepted-schema")
	if err != nil {
		return
	}
	v.Observe("example", ex)
	v.Reach("C15/types")
	v.Assert(gen.JSONText(ex), "C15/example-is-not-well-formed-json")
	v.Assert(s.Validate(json.New("d", ex)) == nil, "C15/example-rejected-by-its-own-schema")
}

// ZZC15Keys: a key shortcut whose string type has a symbolic example (the empty string, plain
// bytes, escape sequences), first, in the middle or last among literal keys.
func ZZC15Keys() {
	lit, dec := docString(v.Param("pieces", 2), v.Param("piecekinds", 6))
	if v.Choose(0, 1) == 1 {
		lit = cat(lit, bs(" // {minLength: 0}"))
	}
	pos := v.Choose(0, 2)
	// fingerprint for the known finding: the key type's example is spelled like a literal sibling key
	collision := "no"
	if (pos > 0 && eqBytes(dec, bs("a1"))) || (pos < 2 && eqBytes(dec, bs("z9"))) {
		collision = "key-example-equals-literal-sibling-key"
	}
	v.Observe("collision", collision)
	root := "{\n"
	if pos > 0 {
		root += "  \"a1\": 1,\n"
	}
	root += "  @k: 1"
	if pos < 2 {
		root += ",\n  \"z9\": 2"
	}
	root += "\n}"
	v.Observe("schema", root)
	v.Observe("keytype", lit)
	s := jschema.New("s", root)
	v.Assert(s.AddType("@k", jschema.New("@k", lit)) == nil, "C15/addtype-failed")
	v.Assume(s.Check() == nil)
	ex, err := s.Example()
	v.Assert(err == nil, "C15/example-error-on-accepted-schema")
	if err != nil {
		return
	}
	v.Observe("example", ex)
	v.Reach("C15/keys")
	v.Assert(gen.JSONText(ex), "C15/example-is-not-well-formed-json")
	v.Assert(s.Validate(json.New("d", ex)) == nil, "C15/example-rejected-by-its-own-schema")
}

// ZZC15KeyTypes: a key shortcut whose type is an or shortcut over string, integer and object types,
// in every order: whenever Check accepts the schema, the example is well formed and validates.
func ZZC15KeyTypes() {
	names := []string{"@s", "@i", "@o", "@s2", "@al", "@al2"}
	n := v.Choose(1, 3)
	body := ""
	for i := 0; i < n; i++ {
		if i > 0 {
			body += " | "
		}
		body += names[v.Choose(0, len(names)-1)]
	}
	root := "{\n  \"id\": 7,\n  @k: 1\n}"
	if v.Choose(0, 1) == 1 {
		root = "{\n  @k: 1\n}"
	}
	v.Observe("schema", root)
	v.Observe("keytype", body)
	s := jschema.New("s", root)
	v.Assert(s.AddType("@k", jschema.New("@k", body)) == nil, "C15/addtype-failed")
	v.Assert(s.AddType("@s", jschema.New("@s", `"abc"`)) == nil, "C15/addtype-failed")
	v.Assert(s.AddType("@s2", jschema.New("@s2", `"de" // {minLength: 2}`)) == nil, "C15/addtype-failed")
	v.Assert(s.AddType("@i", jschema.New("@i", `12`)) == nil, "C15/addtype-failed")
	v.Assert(s.AddType("@o", jschema.New("@o", `{"a": 1}`)) == nil, "C15/addtype-failed")
	// aliases: the same string types are reached along a second path
	v.Assert(s.AddType("@al", jschema.New("@al", `@s`)) == nil, "C15/addtype-failed")
	v.Assert(s.AddType("@al2", jschema.New("@al2", `@s2 | @s`)) == nil, "C15/addtype-failed")
	// all-string key types are legal however often a member is reached
	allStr := true
	for i := 0; i+1 < len(body); i++ {
		if body[i] == '@' && (body[i+1] == 'i' || body[i+1] == 'o') {
			allStr = false
		}
	}
	if allStr {
		v.Assert(s.Check() == nil, "C15/string-key-type-rejected")
	}
	if s.Check() != nil {
		v.Reach("C15/keytypes-rejected")
		return
	}
	v.Reach("C15/keytypes-accepted")
	ex, err := s.Example()
	v.Assert(err == nil, "C15/example-error-on-accepted-schema")
	if err != nil {
		return
	}
	v.Observe("example", ex)
	v.Assert(gen.JSONText(ex), "C15/example-is-not-well-formed-json")
	v.Assert(s.Validate(json.New("d", ex)) == nil, "C15/example-rejected-by-its-own-schema")
}

func init() {
	ZZHarnesses["ZZC15KeyTypes"] = ZZC15KeyTypes
	ZZHarnesses["ZZC15Keys"] = ZZC15Keys
	ZZHarnesses["ZZC15Plain"] = ZZC15Plain
	ZZHarnesses["ZZC15Types"] = ZZC15Types
}

// ZZC15Bytes: every byte string of up to maxlen bytes taken as a schema: whenever Check accepts it,
// Example returns well-formed JSON that the schema accepts.
func ZZC15Bytes() {
	n := v.Choose(1, v.Param("maxlen", 4))
	text := v.Bytes(n)
	v.Observe("schema", text)
	s := jschema.New("s", text)
	v.Assume(s.Check() == nil)
	ex, err := s.Example()
	if ce, ok := err.(interface{ Code() jerr.ErrorCode }); ok && ce.Code() == jerr.ErrEmptySchema {
		// a text of blanks and comments only compiles, and Example / Validate answer "Empty schema"
		v.Reach("C15/bytes-empty-schema")
		return
	}
	v.Assert(err == nil, "C15/example-error-on-accepted-schema")
	if err != nil {
		return
	}
	v.Observe("example", ex)
	v.Reach("C15/bytes")
	v.Assert(gen.JSONText(ex), "C15/example-is-not-well-formed-json")
	v.Assert(s.Validate(json.New("d", ex)) == nil, "C15/example-rejected-by-its-own-schema")
}

func init() { ZZHarnesses["ZZC15Bytes"] = ZZC15Bytes }
