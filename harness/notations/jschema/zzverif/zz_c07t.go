//go:build verif

package zzverif

import (
	"github.com/jsightapi/jsight-schema-go-library/formats/json"
	"github.com/jsightapi/jsight-schema-go-library/notations/jschema"
	"github.com/jsightapi/jsight-schema-go-library/rules/enum"
	"github.com/jsightapi/jsight-schema-go-library/zzverif/corpus"
	"github.com/jsightapi/jsight-schema-go-library/zzverif/v"
)

// c07Cut: text cut at one of the offsets phase, phase+stride, ... (and at its full length),
// followed by 0..1 fully symbolic bytes.
func c07Cut(src []byte) []byte {
	stride := v.Param("stride", 8)
	phase := v.Param("seed", 0) % stride
	n := 0
	for k := phase; k < len(src); k += stride {
		n++
	}
	i := v.Choose(0, n) // n = the full text
	k := len(src)
	if i < n {
		k = phase + i*stride
	}
	x := append([]byte{}, src[:k]...)
	if v.Choose(0, 1) == 1 {
		x = append(x, v.Byte())
	}
	v.Observe("cut", k)
	v.Observe("x", x)
	return x
}

// ZZC07TruncSchema: every schema and user-type text of the repository's corpus (case number
// Param("case")), truncated and continued by an arbitrary byte, through the public schema API.
func ZZC07TruncSchema() {
	f := corpus.Schema(v.Param("case", 0))
	v.Observe("file", f.Name)
	x := c07Cut(f.Content)
	n := len(x)
	guard("schema.Check", func() { c07err(jschema.New("s", x).Check(), n, "schema.Check") })
	guard("schema.Len", func() {
		l, err := jschema.New("s", x).Len()
		c07err(err, n, "schema.Len")
		if err == nil {
			v.Assert(int(l) <= n, "C07/len-beyond-source")
		}
	})
	guard("schema.Example", func() {
		_, err := jschema.New("s", x).Example()
		c07err(err, n, "schema.Example")
	})
	guard("schema.Validate", func() {
		err := jschema.New("s", x).Validate(json.New("d", `{"a":1}`))
		c07err(err, c07max(n, 7), "schema.Validate")
	})
	c07AddType(x)
	v.Reach("C07/trunc-schema")
}

// ZZC07TruncEnum: the same for the corpus's enum rules.
func ZZC07TruncEnum() {
	f := corpus.Enum(v.Param("case", 0))
	v.Observe("file", f.Name)
	x := c07Cut(f.Content)
	n := len(x)
	guard("enum.Check", func() { c07err(enum.New("e", x).Check(), n, "enum.Check") })
	guard("enum.Len", func() {
		l, err := enum.New("e", x).Len()
		c07err(err, n, "enum.Len")
		if err == nil {
			v.Assert(int(l) <= n, "C07/len-beyond-source")
		}
	})
	guard("enum.Values", func() {
		_, err := enum.New("e", x).Values()
		c07err(err, n, "enum.Values")
	})
	v.Reach("C07/trunc-enum")
}

// ZZC07TruncDoc: the same for the corpus's JSON documents.
func ZZC07TruncDoc() {
	f := corpus.Doc(v.Param("case", 0))
	v.Observe("file", f.Name)
	x := c07Cut(f.Content)
	n := len(x)
	guard("json.Check", func() { c07err(json.New("d", x).Check(), n, "json.Check") })
	guard("json.Len", func() {
		l, err := json.New("d", x, json.AllowTrailingNonSpaceCharacters()).Len()
		c07err(err, n, "json.Len")
		if err == nil {
			v.Assert(int(l) <= n, "C07/len-beyond-source")
		}
	})
	guard("schema.Validate(doc)", func() {
		err := jschema.New("s", "any").Validate(json.New("d", x))
		c07err(err, c07max(n, 3), "schema.Validate(doc)")
	})
	v.Reach("C07/trunc-doc")
}

func init() {
	ZZHarnesses["ZZC07TruncSchema"] = ZZC07TruncSchema
	ZZHarnesses["ZZC07TruncEnum"] = ZZC07TruncEnum
	ZZHarnesses["ZZC07TruncDoc"] = ZZC07TruncDoc
}
