//go:build verif

package zzverif

import (
	"github.com/jsightapi/jsight-schema-go-library/errors"
	"github.com/jsightapi/jsight-schema-go-library/formats/json"
	"github.com/jsightapi/jsight-schema-go-library/fs"
	"github.com/jsightapi/jsight-schema-go-library/kit"
	"github.com/jsightapi/jsight-schema-go-library/notations/jschema"
	"github.com/jsightapi/jsight-schema-go-library/rules/enum"
	"github.com/jsightapi/jsight-schema-go-library/zzverif/corpus"
	"github.com/jsightapi/jsight-schema-go-library/zzverif/v"
)

func selfName(f corpus.File) string {
	n := f.Name
	for i := len(n) - 1; i >= 0; i-- {
		if n[i] == '.' {
			return "@" + n[:i]
		}
	}
	return "@" + n
}

// selfValidate is the repository's own test driver (test/testdata_test.go validate) on in-memory files.
func selfValidate(c corpus.Case) kit.Error {
	schemaFile := fs.NewFile(c.Schema.Name, c.Schema.Content)
	sc := jschema.FromFile(schemaFile)
	for _, f := range c.Enums {
		name := selfName(f)
		ff := fs.NewFile(name, f.Content)
		if len(f.Content) == 0 {
			return errors.NewDocumentError(schemaFile, errors.Format(errors.ErrEmptyType, name))
		}
		if err := sc.AddRule(name, enum.FromFile(ff)); err != nil {
			return kit.ConvertError(ff, err)
		}
	}
	for _, f := range c.Types {
		name := selfName(f)
		ff := fs.NewFile(name, f.Content)
		if len(f.Content) == 0 {
			return errors.NewDocumentError(schemaFile, errors.Format(errors.ErrEmptyType, name))
		}
		if err := sc.AddType(name, jschema.FromFile(ff)); err != nil {
			return kit.ConvertError(ff, err)
		}
	}
	if err := sc.Validate(json.FromFile(fs.NewFile(c.Doc.Name, c.Doc.Content))); err != nil {
		return kit.ConvertError(schemaFile, err)
	}
	return nil
}

// ZZSelfCorpus runs corpus case number Param("case") concretely; the engine compares its
// observations with the natively compiled run of the same case.
func ZZSelfCorpus() {
	c := corpus.Get(v.Param("case", 0))
	v.Observe("dir", c.Dir)
	v.Observe("doc", c.Doc.Name)
	err := selfValidate(c)
	code, pos, msg, file := 0, 0, "", ""
	if err != nil {
		code, pos, msg, file = err.ErrCode(), int(err.Position()), err.Message(), err.Filename()
	}
	v.Observe("code", code)
	v.Observe("pos", pos)
	v.Observe("msg", msg)
	v.Observe("file", file)
	v.Assert(code == c.Want, "selfcheck/corpus-expectation")
}

func init() {
	ZZHarnesses["ZZSelfCorpus"] = ZZSelfCorpus
}
