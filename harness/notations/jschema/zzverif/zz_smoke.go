//go:build verif

// Package zzverif holds the whole-stack harnesses (it may import
// notations/jschema/internal/...).
package zzverif

import (
	"github.com/jsightapi/jsight-schema-go-library/fs"
	"github.com/jsightapi/jsight-schema-go-library/notations/jschema/internal/scanner"
	"github.com/jsightapi/jsight-schema-go-library/formats/json"
	"github.com/jsightapi/jsight-schema-go-library/notations/jschema"
	"github.com/jsightapi/jsight-schema-go-library/zzverif/v"
)

// ZZSmoke: concrete schema, document with two symbolic digits.
func ZZSmoke() {
	sch := jschema.New("s", "{\n  \"a\": 12, // {min: 10}\n  \"b\": \"x\" // {optional: true}\n}")
	err := sch.Check()
	v.Assert(err == nil, "smoke/check")
	d := v.Bytes(2)
	v.Assume('0' <= d[0] && d[0] <= '9' && '0' <= d[1] && d[1] <= '9' && d[0] != '0')
	doc := append(append([]byte(`{"a": `), d...), '}')
	v.Observe("doc", doc)
	verr := sch.Validate(json.New("d", doc))
	want := d[0] >= '1'
	v.Assert((verr == nil) == want, "smoke/validate")
}

var ZZHarnesses = map[string]func(){
	"ZZSmoke": ZZSmoke,
}

func ZZDebug() {
	s := jschema.New("s", "2 // {nullable: true}")
	err := s.Check()
	if err != nil {
		v.Observe("err", err.Error())
	}
	v.Assert(err == nil, "debug")
}

func init() { ZZHarnesses["ZZDebug"] = ZZDebug }

func ZZCount() {
	a := v.Choose(0, 3)
	b := v.Choose(0, 3)
	c := v.Choose(-1, a-1)
	v.Observe("abc", a*100+b*10+c)
}

func init() { ZZHarnesses["ZZCount"] = ZZCount }

func ZZDebug2() {
	s := jschema.New("s", "1 /* a *")
	err := s.Check()
	if err != nil {
		v.Observe("err", err.Error())
	}
	v.Assert(err == nil, "debug")
}

func init() { ZZHarnesses["ZZDebug2"] = ZZDebug2 }

func ZZDebug3() {
	s := jschema.New("s", "@a |")
	err := s.Check()
	if err != nil {
		v.Observe("err", err.Error())
	}
	v.Assert(err == nil, "debug")
}

func init() { ZZHarnesses["ZZDebug3"] = ZZDebug3 }

func ZZDebug4() {
	x := ""
	if v.Choose(0, 1) == 1 {
		x = "@t"
	}
	root := jschema.New("root", "@t")
	err := root.AddType("@t", jschema.New("t", x))
	if err == nil {
		err = root.Check()
	}
	if err != nil {
		v.Observe("err", err.Error())
	}
	v.Assert(err == nil, "debug")
}

func init() { ZZHarnesses["ZZDebug4"] = ZZDebug4 }

func ZZDebug5() {
	root := jschema.New("root", "@t")
	err := root.AddType("@t", jschema.New("t", ""))
	if err == nil {
		err = root.Check()
	}
	if err != nil {
		v.Observe("err", err.Error())
	}
	v.Assert(err == nil, "debug")
}

func init() { ZZHarnesses["ZZDebug5"] = ZZDebug5 }

func ZZDebug6() {
	text := "[\n  #\n  4,\n  \"z\"\n]"
	if v.Choose(0, 1) == 1 {
		text = "[\n  4,\n  \"z\"\n]"
	}
	sc := scanner.New(fs.NewFile("s", text))
	out := ""
	for i := 0; i < 40; i++ {
		lex, ok := sc.Next()
		if !ok {
			break
		}
		out += lex.Type().String() + " "
	}
	v.Observe("events", out)
	v.Fail("debug")
}

func init() { ZZHarnesses["ZZDebug6"] = ZZDebug6 }

func ZZDebug7() {
	s := jschema.New("s", `1 // {type: ""}`)
	err := s.Check()
	if err != nil {
		v.Observe("err", err.Error())
	}
	v.Assert(err == nil, "debug")
}

func init() { ZZHarnesses["ZZDebug7"] = ZZDebug7 }
