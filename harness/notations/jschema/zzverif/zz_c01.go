//go:build verif

package zzverif

import (
	"github.com/jsightapi/jsight-schema-go-library/formats/json"
	"github.com/jsightapi/jsight-schema-go-library/notations/jschema"
	"github.com/jsightapi/jsight-schema-go-library/zzverif/gen"
	"github.com/jsightapi/jsight-schema-go-library/zzverif/v"
)

func newSchema(text []byte, optDefault bool) *jschema.Schema {
	if optDefault {
		return jschema.New("schema", text, jschema.KeysAreOptionalByDefault())
	}
	return jschema.New("schema", text)
}

// validateBoth runs Check and Validate and asserts the C01 relation.
func c01Assert(e *gen.Ex, d *gen.Doc, optDefault bool) {
	st := gen.Schema(e)
	dt := gen.JSON(d)
	v.Observe("schema", st)
	v.Observe("doc", dt)
	v.Observe("optDefault", optDefault)
	s := newSchema(st, optDefault)
	cerr := s.Check()
	v.Assert(cerr == nil, "C01/generated-schema-rejected-by-Check")
	if cerr != nil {
		return
	}
	verr := s.Validate(json.New("doc", dt))
	want := gen.ShapeOK(e, d, optDefault)
	if want {
		v.Reach("C01/accepting")
		v.Assert(verr == nil, "C01/conforming-document-rejected")
	} else {
		v.Reach("C01/rejecting")
		v.Assert(verr != nil, "C01/non-conforming-document-accepted")
		// C17: a validation error points at the start of the offending value or key
		if verr != nil {
			if pos, known := gen.FirstBad(e, d, optDefault); known {
				if pe, ok := verr.(interface{ Position() uint }); ok {
					v.Reach("C17/validation-position")
					v.Assert(int(pe.Position()) == pos, "C17/validation-error-position")
				}
			}
		}
	}
}

// flag selectors for a node in value position
func scalarFlags(e *gen.Ex, sel int) {
	switch sel {
	case 1:
		e.Nullable = 1
	case 2:
		e.Nullable = 2
	case 3:
		e.Any = true
	}
}

func propFlags(e *gen.Ex, sel int) {
	switch sel {
	case 1:
		e.Optional = 1
	case 2:
		e.Optional = 2
	case 3:
		e.Nullable = 1
	case 4:
		e.Any = true
	case 5:
		e.Optional = 1
		e.Nullable = 1
	}
}

func anyDoc(k gen.Kind) *gen.Doc {
	switch k {
	case gen.KObj:
		if v.Choose(0, 1) == 0 {
			return &gen.Doc{Kind: gen.KObj}
		}
		return &gen.Doc{Kind: gen.KObj, Keys: [][]byte{[]byte("z")}, Kids: []*gen.Doc{{Kind: gen.KInt, Lit: []byte("1")}}}
	case gen.KArr:
		if v.Choose(0, 1) == 0 {
			return &gen.Doc{Kind: gen.KArr}
		}
		return &gen.Doc{Kind: gen.KArr, Kids: []*gen.Doc{{Kind: gen.KNull, Lit: []byte("null")}}}
	}
	return &gen.Doc{Kind: k, Lit: gen.ScalarLit(k)}
}

// ZZC01Scalar: root scalar example of every kind x flags, against a document of every kind.
func ZZC01Scalar() {
	// every scalar kind, plus the empty object and the empty array as examples
	k := gen.Kind(v.Choose(0, int(gen.KArr)))
	e := &gen.Ex{Kind: k, Lit: gen.ScalarLit(k)}
	scalarFlags(e, v.Choose(0, 3))
	d := anyDoc(gen.Kind(v.Choose(0, int(gen.NKinds)-1)))
	c01Assert(e, d, v.Choose(0, 1) == 1)
}

func smallLit(k gen.Kind) []byte {
	switch k {
	case gen.KInt:
		d := v.Byte()
		v.Assume('0' <= d && d <= '9')
		return []byte{d}
	case gen.KStr:
		c := v.Byte()
		v.Assume(c >= 0x20 && c < 0x7f && c != '"' && c != '\\')
		return []byte{'"', c, '"'}
	case gen.KFloat:
		d := v.Byte()
		v.Assume('1' <= d && d <= '9')
		return []byte{'0', '.', d}
	case gen.KBool:
		return []byte("true")
	}
	return []byte("null")
}

var propKinds = []gen.Kind{gen.KInt, gen.KStr, gen.KNull}

// ZZC01Object: object example with up to two properties; documents with any
// subset of the keys in any order, optional foreign key, values of same/other
// kind. Quick tier: the second property is restricted (int, none/optional) so
// that the product stays small; thorough: both properties range over everything.
func ZZC01Object() {
	keys := [][]byte{[]byte("a"), []byte("b")}
	if v.Param("emptykey", 1) != 0 && v.Choose(0, 1) == 1 {
		keys[0] = []byte{} // the empty string is a legal key
	}
	n := v.Choose(0, v.Param("maxkeys", 2))
	full2 := v.Param("full2", 0) != 0
	e := &gen.Ex{Kind: gen.KObj}
	scalarFlags(e, v.Choose(0, 1)) // the object itself: none / nullable
	for i := 0; i < n; i++ {
		var c *gen.Ex
		if i == 0 || full2 {
			k := propKinds[v.Choose(0, 1)]
			c = &gen.Ex{Kind: k, Lit: fixedLit(k)}
			propFlags(c, v.Choose(0, 5))
		} else {
			c = &gen.Ex{Kind: gen.KInt, Lit: fixedLit(gen.KInt)}
			propFlags(c, v.Choose(0, 1))
		}
		e.Keys = append(e.Keys, keys[i])
		e.Kids = append(e.Kids, c)
	}
	// the document
	var d *gen.Doc
	if v.Choose(0, 1) == 0 {
		d = anyDoc(gen.Kind(v.Choose(0, int(gen.KArr)))) // a non-object / null / foreign object at the root
	} else {
		d = &gen.Doc{Kind: gen.KObj}
		order := 0
		if n == 2 {
			order = v.Choose(0, 1)
		}
		for j := 0; j < n; j++ {
			i := j
			if order == 1 {
				i = n - 1 - j
			}
			hi := 3
			if i == 1 && !full2 {
				hi = 2
			}
			switch v.Choose(0, hi) {
			case 0: // absent
			case 1: // same kind
				d.Keys = append(d.Keys, keys[i])
				d.Kids = append(d.Kids, &gen.Doc{Kind: e.Kids[i].Kind, Lit: docLit(e.Kids[i].Kind)})
			case 2: // null
				d.Keys = append(d.Keys, keys[i])
				d.Kids = append(d.Kids, &gen.Doc{Kind: gen.KNull, Lit: []byte("null")})
			case 3: // another kind
				ok := gen.KStr
				if e.Kids[i].Kind == gen.KStr {
					ok = gen.KInt
				}
				d.Keys = append(d.Keys, keys[i])
				d.Kids = append(d.Kids, &gen.Doc{Kind: ok, Lit: docLit(ok)})
			}
		}
		if v.Choose(0, 1) == 0 { // foreign key, at the front or at the back
			fk := &gen.Doc{Kind: gen.KInt, Lit: []byte("7")}
			if v.Choose(0, 1) == 0 {
				d.Keys = append([][]byte{[]byte("z")}, d.Keys...)
				d.Kids = append([]*gen.Doc{fk}, d.Kids...)
			} else {
				d.Keys = append(d.Keys, []byte("z"))
				d.Kids = append(d.Kids, fk)
			}
		}
	}
	c01Assert(e, d, v.Choose(0, 1) == 1)
}

var elemKinds = []gen.Kind{gen.KInt, gen.KStr, gen.KFloat, gen.KNull}

// ZZC01Array: array example with 0..2 elements; documents of length 0..len+2
// conforming except for at most one deviating position. Quick tier restricts
// the second example element (int|string, none|nullable).
func ZZC01Array() {
	n := v.Choose(0, 2)
	full2 := v.Param("full2", 0) != 0
	e := &gen.Ex{Kind: gen.KArr}
	scalarFlags(e, v.Choose(0, 1))
	for i := 0; i < n; i++ {
		var c *gen.Ex
		if i == 0 || full2 {
			k := elemKinds[v.Choose(0, len(elemKinds)-1)]
			c = &gen.Ex{Kind: k, Lit: fixedLit(k)}
			scalarFlags(c, v.Choose(0, 3))
		} else {
			k := elemKinds[v.Choose(0, 1)]
			c = &gen.Ex{Kind: k, Lit: fixedLit(k)}
			scalarFlags(c, v.Choose(0, 1))
		}
		e.Kids = append(e.Kids, c)
	}
	var d *gen.Doc
	if v.Choose(0, 1) == 0 {
		d = anyDoc(gen.Kind(v.Choose(0, int(gen.KObj))))
	} else {
		L := v.Choose(0, n+2)
		dev := v.Choose(-1, L-1)
		d = &gen.Doc{Kind: gen.KArr}
		for i := 0; i < L; i++ {
			j := i
			if j >= n {
				j = n - 1
			}
			k := gen.KInt
			if j >= 0 {
				k = e.Kids[j].Kind
			}
			lit := []byte(nil)
			if i == dev {
				switch v.Choose(0, 2) {
				case 0:
					k = gen.KNull
				case 1:
					if k == gen.KStr {
						k = gen.KInt
					} else {
						k = gen.KStr
					}
				case 2:
					if k == gen.KFloat {
						k = gen.KInt
					} else {
						k = gen.KFloat
					}
				}
				lit = smallLit(k)
			} else {
				lit = fixedLit(k)
			}
			d.Kids = append(d.Kids, &gen.Doc{Kind: k, Lit: lit})
		}
	}
	c01Assert(e, d, false)
}

func fixedLit(k gen.Kind) []byte {
	switch k {
	case gen.KInt:
		return []byte("3")
	case gen.KStr:
		return []byte(`"s"`)
	case gen.KFloat:
		return []byte("2.5")
	case gen.KBool:
		return []byte("false")
	}
	return []byte("null")
}

// ZZC01Nested: a chain of containers of depth `depth` ending in a scalar; the
// document follows the chain and deviates at one level (null / other kind /
// missing key / extra element).
func ZZC01Nested() {
	depth := v.Param("depth", 3)
	var levels []*gen.Ex
	root := &gen.Ex{}
	cur := root
	for l := 0; l < depth; l++ {
		levels = append(levels, cur)
		if v.Choose(0, 1) == 0 {
			cur.Kind = gen.KObj
			cur.Keys = [][]byte{[]byte("a")}
		} else {
			cur.Kind = gen.KArr
		}
		switch v.Choose(0, 2) {
		case 1:
			cur.Nullable = 1
		case 2:
			if l > 0 && levels[l-1].Kind == gen.KObj {
				cur.Optional = 1
			}
		}
		next := &gen.Ex{}
		cur.Kids = []*gen.Ex{next}
		cur = next
	}
	lk := propKinds[v.Choose(0, 1)]
	cur.Kind = lk
	cur.Lit = fixedLit(lk)
	propFlagsLeaf := v.Choose(0, 2)
	switch propFlagsLeaf {
	case 1:
		cur.Nullable = 1
	case 2:
		cur.Any = true
	}
	levels = append(levels, cur)
	// document: follow the chain, deviate at level dv (depth+1 = no deviation)
	dv := v.Choose(0, depth+1)
	how := v.Choose(0, 2)
	var build func(l int) *gen.Doc
	build = func(l int) *gen.Doc {
		e := levels[l]
		if l == dv {
			switch how {
			case 0:
				return &gen.Doc{Kind: gen.KNull, Lit: []byte("null")}
			case 1:
				if e.Kind == gen.KStr {
					return &gen.Doc{Kind: gen.KInt, Lit: []byte("5")}
				}
				return &gen.Doc{Kind: gen.KStr, Lit: []byte(`"q"`)}
			}
			// how == 2: empty container of the same kind (missing key / no elements)
			if e.Kind == gen.KObj || e.Kind == gen.KArr {
				return &gen.Doc{Kind: e.Kind}
			}
			return &gen.Doc{Kind: gen.KBool, Lit: []byte("false")}
		}
		switch e.Kind {
		case gen.KObj:
			return &gen.Doc{Kind: gen.KObj, Keys: [][]byte{[]byte("a")}, Kids: []*gen.Doc{build(l + 1)}}
		case gen.KArr:
			kids := []*gen.Doc{build(l + 1)}
			if v.Choose(0, 1) == 1 {
				kids = append(kids, build(l+1))
			}
			return &gen.Doc{Kind: gen.KArr, Kids: kids}
		}
		return &gen.Doc{Kind: e.Kind, Lit: smallLit(e.Kind)}
	}
	c01Assert(root, build(0), v.Choose(0, 1) == 1)
}

// c01Member: an empty or non-empty array, an empty or non-empty object, or a scalar.
func c01Member(sel int) *gen.Ex {
	one := func() *gen.Ex { return &gen.Ex{Kind: gen.KInt, Lit: fixedLit(gen.KInt)} }
	switch sel {
	case 0:
		return &gen.Ex{Kind: gen.KArr}
	case 1:
		return &gen.Ex{Kind: gen.KArr, Kids: []*gen.Ex{one()}}
	case 2:
		return &gen.Ex{Kind: gen.KObj}
	case 3:
		return &gen.Ex{Kind: gen.KObj, Keys: [][]byte{[]byte("k")}, Kids: []*gen.Ex{one()}}
	case 4:
		return &gen.Ex{Kind: gen.KArr, Kids: []*gen.Ex{{Kind: gen.KArr, Kids: []*gen.Ex{one()}}}}
	}
	return &gen.Ex{Kind: gen.KStr, Lit: fixedLit(gen.KStr)}
}

// ZZC01Siblings: two or three members of an array or object, each an empty or non-empty container
// or a scalar and each with its own flags: what a node may carry does not depend on the shape of
// the sibling written before it. Documents: the example's own shape, or null / another kind in
// the place of one member.
func ZZC01Siblings() {
	n := v.Choose(2, v.Param("members", 2))
	e := &gen.Ex{Kind: gen.KArr}
	if v.Choose(0, 1) == 1 {
		e.Kind = gen.KObj
	}
	for i := 0; i < n; i++ {
		m := c01Member(v.Choose(0, 5))
		if len(m.Kids) > 0 {
			scalarFlags(m, v.Choose(0, 2)) // type "any" is for nodes without children
		} else {
			scalarFlags(m, v.Choose(0, 3))
		}
		e.Kids = append(e.Kids, m)
		if e.Kind == gen.KObj {
			e.Keys = append(e.Keys, []byte{byte('a' + i)})
		}
	}
	d := gen.ExampleDoc(e)
	if dev := v.Choose(-1, n-1); dev >= 0 {
		if v.Choose(0, 1) == 0 {
			d.Kids[dev] = &gen.Doc{Kind: gen.KNull, Lit: []byte("null")}
		} else if d.Kids[dev].Kind == gen.KBool {
			d.Kids[dev] = &gen.Doc{Kind: gen.KInt, Lit: []byte("7")}
		} else {
			d.Kids[dev] = &gen.Doc{Kind: gen.KBool, Lit: []byte("true")}
		}
	}
	c01Assert(e, d, false)
}

func init() {
	ZZHarnesses["ZZC01Siblings"] = ZZC01Siblings
	ZZHarnesses["ZZC01Scalar"] = ZZC01Scalar
	ZZHarnesses["ZZC01Object"] = ZZC01Object
	ZZHarnesses["ZZC01Array"] = ZZC01Array
	ZZHarnesses["ZZC01Nested"] = ZZC01Nested
}

// docLit: symbolic literal when the parameter symlits is set, else fixed.
func docLit(k gen.Kind) []byte {
	if v.Param("symlits", 1) != 0 {
		return smallLit(k)
	}
	return fixedLit(k)
}

// ZZC01Keys: document keys are compared by value: a key written with escape sequences is the key
// it decodes to (present / required / unknown accordingly).
func ZZC01Keys() {
	optDefault := v.Choose(0, 1) == 1
	s := newSchema([]byte("{\n  \"a\": 1,\n  \"b/c\": \"x\" // {optional: true}\n}"), optDefault)
	v.Assert(s.Check() == nil, "C01/generated-schema-rejected-by-Check")
	spA := []string{`a`, `\u0061`, `A`, `b`}[v.Choose(0, 3)]
	spB := []string{`b/c`, `b\/c`, `b\u002fc`, `b\u002Fc`, `b\\/c`}[v.Choose(0, 4)]
	hasA := v.Choose(0, 1) == 1
	hasB := v.Choose(0, 1) == 1
	doc := "{"
	if hasA {
		doc += `"` + spA + `":5`
	}
	if hasB {
		if hasA {
			doc += ","
		}
		doc += `"` + spB + `":"y"`
	}
	doc += "}"
	v.Observe("doc", doc)
	aOK := spA == `a` || spA == `\u0061`
	bOK := spB != `b\\/c`
	want := (!hasA || aOK) && (!hasB || bOK) && (hasA || optDefault)
	verr := s.Validate(json.New("d", doc))
	if want {
		v.Reach("C01/accepting")
		v.Assert(verr == nil, "C01/conforming-document-rejected")
	} else {
		v.Reach("C01/rejecting")
		v.Assert(verr != nil, "C01/non-conforming-document-accepted")
	}
}

func init() { ZZHarnesses["ZZC01Keys"] = ZZC01Keys }
