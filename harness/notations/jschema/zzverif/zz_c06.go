//go:build verif

package zzverif

import (
	stdErrors "errors"
	"io"

	"github.com/jsightapi/jsight-schema-go-library/formats/json"
	"github.com/jsightapi/jsight-schema-go-library/fs"
	"github.com/jsightapi/jsight-schema-go-library/internal/lexeme"
	"github.com/jsightapi/jsight-schema-go-library/notations/jschema/internal/scanner"
	"github.com/jsightapi/jsight-schema-go-library/zzverif/gen"
	"github.com/jsightapi/jsight-schema-go-library/zzverif/v"
)

type c06Ev struct {
	t          lexeme.LexEventType
	begin, end int // -1: not compared
}

// c06Expect lists the events the statement prescribes for a document tree.
func c06Expect(d *gen.Doc, out []c06Ev) []c06Ev {
	switch d.Kind {
	case gen.KObj:
		out = append(out, c06Ev{lexeme.ObjectBegin, d.Off, d.Off})
		for i, k := range d.Kids {
			ko := d.KeyOffs[i]
			out = append(out, c06Ev{lexeme.ObjectKeyBegin, ko, ko}, c06Ev{lexeme.ObjectKeyEnd, ko, ko + len(d.Keys[i]) + 1},
				c06Ev{lexeme.ObjectValueBegin, -1, -1})
			out = c06Expect(k, out)
			out = append(out, c06Ev{lexeme.ObjectValueEnd, -1, -1})
		}
		return append(out, c06Ev{lexeme.ObjectEnd, d.Off, d.End})
	case gen.KArr:
		out = append(out, c06Ev{lexeme.ArrayBegin, d.Off, d.Off})
		for _, k := range d.Kids {
			out = append(out, c06Ev{lexeme.ArrayItemBegin, -1, -1})
			out = c06Expect(k, out)
			out = append(out, c06Ev{lexeme.ArrayItemEnd, -1, -1})
		}
		return append(out, c06Ev{lexeme.ArrayEnd, d.Off, d.End})
	}
	return append(out, c06Ev{lexeme.LiteralBegin, d.Off, d.Off}, c06Ev{lexeme.LiteralEnd, d.Off, d.End})
}

func c06Value(depth int) *gen.Doc {
	hi := 6
	if depth == 0 {
		hi = 4
	}
	switch k := v.Choose(0, hi); k {
	case 0:
		return &gen.Doc{Kind: gen.KNull, Lit: bs("null")}
	case 1:
		return &gen.Doc{Kind: gen.KBool, Lit: gen.BoolLit()}
	case 2:
		return &gen.Doc{Kind: gen.KInt, Lit: gen.NumLit(v.Choose(0, 2))}
	case 3:
		f := gen.NumLit(3)
		return &gen.Doc{Kind: gen.KFloat, Lit: f}
	case 4:
		l, _ := docString(2, v.Param("piecekinds", 6))
		return &gen.Doc{Kind: gen.KStr, Lit: l}
	case 5:
		d := &gen.Doc{Kind: gen.KObj}
		n := v.Choose(0, 2)
		for i := 0; i < n; i++ {
			d.Keys = append(d.Keys, []byte{byte('a' + i)})
			d.Kids = append(d.Kids, c06Value(depth-1))
		}
		return d
	}
	d := &gen.Doc{Kind: gen.KArr}
	n := v.Choose(0, 2)
	for i := 0; i < n; i++ {
		d.Kids = append(d.Kids, c06Value(depth-1))
	}
	return d
}

func c06Check(evs []lexeme.LexEvent, want []c06Ev, n int, tag string) {
	v.Assert(len(evs) == len(want), "C06/event-count"+tag)
	if len(evs) != len(want) {
		return
	}
	depth := 0
	for i, e := range evs {
		v.Assert(e.Type() == want[i].t, "C06/event-type"+tag)
		v.Assert(int(e.Begin()) <= int(e.End()) && int(e.End()) < n, "C06/span-outside-input"+tag)
		if want[i].begin >= 0 {
			v.Assert(int(e.Begin()) == want[i].begin && int(e.End()) == want[i].end, "C06/span"+tag)
		}
		if e.Type().IsOpening() {
			depth++
		} else {
			depth--
		}
		v.Assert(depth >= 0, "C06/nesting"+tag)
	}
	v.Assert(depth == 0, "C06/nesting-unbalanced"+tag)
}

// ZZC06: events of the JSON document scanner and of the schema scanner for a
// generated valid JSON text with symbolic scalars and blanks.
func ZZC06() {
	d := c06Value(v.Param("depth", 2))
	nb := 0
	maxb := v.Param("blanksites", 2)
	text := gen.JSONSpaced(d, func() []byte {
		if nb >= maxb {
			return nil
		}
		if v.Choose(0, 1) == 0 {
			return nil
		}
		nb++
		// a run of one (after a root scalar: one or two) symbolic blanks at this gap
		run := 1
		if d.Kind != gen.KObj && d.Kind != gen.KArr {
			run = v.Choose(1, 2)
		}
		out := make([]byte, 0, run)
		for i := 0; i < run; i++ {
			c := v.Byte()
			v.Assume(c == ' ' || c == '\t' || c == '\n' || c == '\r')
			out = append(out, c)
		}
		return out
	})
	v.Observe("text", text)
	want := c06Expect(d, nil)
	// JSON document
	doc := json.New("d", text)
	var evs []lexeme.LexEvent
	ended := false
	for i := 0; i < 4*len(want)+8; i++ {
		lex, err := doc.NextLexeme()
		if err != nil {
			v.Assert(stdErrors.Is(err, io.EOF), "C06/valid-json-gives-error")
			ended = true
			break
		}
		evs = append(evs, lex)
	}
	v.Assert(ended, "C06/stream-not-terminated-by-eof")
	c06Check(evs, want, len(text), "/json")
	// literal and key values are the source tokens
	for _, e := range evs {
		if e.Type() == lexeme.LiteralEnd || e.Type() == lexeme.ObjectKeyEnd {
			val := e.Value()
			v.Assert(len(val) == int(e.End())-int(e.Begin())+1, "C06/value-length")
			if len(val) == int(e.End())-int(e.Begin())+1 {
				same := true
				for j := range val {
					if val[j] != text[int(e.Begin())+j] {
						same = false
					}
				}
				v.Assert(same, "C06/value-is-not-the-source-slice")
			}
		}
	}
	v.Reach("C06/json")
	// the schema scanner on the same text (numbers here have no exponent)
	sc := scanner.New(fs.NewFile("s", text))
	var sevs []lexeme.LexEvent
	ok := false
	func() {
		defer func() { recover() }()
		for i := 0; i < 6*len(want)+16; i++ {
			lex, more := sc.Next()
			if !more {
				break
			}
			if lex.Type() == lexeme.NewLine {
				continue
			}
			sevs = append(sevs, lex)
		}
		ok = true
	}()
	v.Assert(ok, "C06/schema-scanner-rejects-plain-json")
	if ok {
		c06Check(sevs, want, len(text), "/schema")
	}
}

func init() { ZZHarnesses["ZZC06"] = ZZC06 }

// c06Lines: a JSON text written one token group per line; after[i] tells what may follow line i:
// 'a' an annotation, a note or a user comment, 'c' a user comment only.
var c06Lines = []struct {
	text  string
	after byte
}{
	{`{`, 'a'}, {`  "a": 1,`, 'a'}, {`  "b": [`, 'a'}, {`    2,`, 'a'}, {`    "s"`, 'a'}, {`  ],`, 'c'}, {`  "c": {},`, 'a'}, {`  "d": null`, 'a'}, {`}`, 'c'},
}

var c06Tails = []string{
	` // note`, ` // note # remark`, ` // {optional: true}`, ` // {optional: true} - note`, ` // {optional: true} - note # remark`,
	` /* {nullable: true} */`, ` # remark`, ` #`, ` // {optional: true} # remark`,
}

// ZZC06Annotated: the plain-JSON part of a schema gives the events of the JSON scanner whatever
// annotations, notes and user comments stand at the ends of its lines (up to `sites` of them).
func ZZC06Annotated() {
	var plain, ann []byte
	sites := 0
	for i, l := range c06Lines {
		plain = append(plain, l.text...)
		ann = append(ann, l.text...)
		if sites < v.Param("sites", 2) && v.Choose(0, 1) == 1 {
			sites++
			t := c06Tails[6+v.Choose(0, 1)]
			if l.after == 'a' {
				t = c06Tails[v.Choose(0, len(c06Tails)-1)]
			}
			ann = append(ann, t...)
		}
		if i < len(c06Lines)-1 {
			plain = append(plain, '\n')
			ann = append(ann, '\n')
		}
	}
	v.Observe("text", ann)
	var want []lexeme.LexEvent
	doc := json.New("d", plain)
	for i := 0; i < 200; i++ {
		lex, err := doc.NextLexeme()
		if err != nil {
			break
		}
		want = append(want, lex)
	}
	sc := scanner.New(fs.NewFile("s", ann))
	var got []lexeme.LexEvent
	ok := false
	func() {
		defer func() { recover() }()
		depth := 0
		for i := 0; i < 600; i++ {
			lex, more := sc.Next()
			if !more {
				break
			}
			switch lex.Type() {
			case lexeme.InlineAnnotationBegin, lexeme.MultiLineAnnotationBegin:
				depth++
				continue
			case lexeme.InlineAnnotationEnd, lexeme.MultiLineAnnotationEnd:
				depth--
				continue
			case lexeme.NewLine:
				continue
			}
			if depth == 0 {
				got = append(got, lex)
			}
		}
		ok = true
	}()
	v.Assert(ok, "C06/schema-scanner-rejects-annotated-json")
	if !ok {
		return
	}
	v.Assert(len(got) == len(want), "C06/annotated-event-count")
	if len(got) == len(want) {
		for i := range got {
			v.Assert(got[i].Type() == want[i].Type(), "C06/annotated-event-type")
			if got[i].Type() == lexeme.LiteralEnd || got[i].Type() == lexeme.ObjectKeyEnd {
				v.Assert(string(got[i].Value()) == string(want[i].Value()), "C06/annotated-event-value")
			}
		}
	}
	v.Reach("C06/annotated")
}

func init() { ZZHarnesses["ZZC06Annotated"] = ZZC06Annotated }
