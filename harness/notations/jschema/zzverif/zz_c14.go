//go:build verif

package zzverif

import (
	"github.com/jsightapi/jsight-schema-go-library/formats/json"
	"github.com/jsightapi/jsight-schema-go-library/notations/jschema"
	"github.com/jsightapi/jsight-schema-go-library/rules/enum"
	"github.com/jsightapi/jsight-schema-go-library/zzverif/v"
)

// S templates: accepted texts; `kind` tells how S ends:
// 'b' closing bracket, 'q' closing quote, 'n' number, 'w' keyword, 's' type shortcut,
// 'a' inline annotation (the rest of the line belongs to it), 'm' multi-line annotation.
type c14S struct {
	text string
	end  byte
}

var c14Schemas = []c14S{
	{`{}`, 'b'}, {`[]`, 'b'}, {`{"a": 1}`, 'b'}, {`[1, 2]`, 'b'}, {"{\n  \"a\": [1]\n}", 'b'},
	{`"a"`, 'q'}, {`""`, 'q'}, {`12`, 'n'}, {`0`, 'n'}, {`1.5`, 'n'}, {`-3`, 'n'}, {`true`, 'w'}, {`null`, 'w'},
	{`@t`, 's'}, {`@a | @b`, 's'},
	{`1 // {min: 0}`, 'a'}, {`"a" // {minLength: 1} - note`, 'a'}, {"{ // {additionalProperties: true}\n  \"a\": 1 // {optional: true}\n}", 'b'},
	{`1 /* {min: 0} */`, 'm'}, {"[ // {minItems: 1}\n  1\n]", 'b'},
	// a user comment after an annotation's note, after rules, and after a bare value: the line is part of S
	{`1 // {min: 0} - note # c`, 'a'}, {`2 // note # c`, 'a'}, {`3 // {min: 0} # c`, 'a'}, {`{} # c`, 'a'},
	{"{\n  \"a\": 1 // note # c\n}", 'b'},
}

var c14Docs = []c14S{
	{`{}`, 'b'}, {`[]`, 'b'}, {`{"a":1}`, 'b'}, {`[1,2]`, 'b'}, {`"a"`, 'q'}, {`12`, 'n'}, {`0`, 'n'}, {`1.5`, 'n'}, {`1e2`, 'n'}, {`true`, 'w'}, {`null`, 'w'}, {`[[]]`, 'b'},
}

var c14Enums = []c14S{
	{`[]`, 'b'}, {`[1]`, 'b'}, {`[1] // c`, 'a'}, {`["a", "b"] // letters`, 'a'}, {`[1, "a", true, null]`, 'b'}, {"[\n  1, // one\n  2\n]", 'b'}, {`[1 /* c */, 2]`, 'b'},
}

func blank() byte {
	c := v.Byte()
	v.Assume(c == ' ' || c == '\t' || c == '\n' || c == '\r')
	return c
}

func isNameByte(c byte) bool {
	return c == '-' || c == '_' || ('a' <= c && c <= 'z') || ('A' <= c && c <= 'Z') || ('0' <= c && c <= '9')
}

// c14Tail builds sep ++ tail after S so that the text "cannot continue" S.
// what: 0 schema, 1 json, 2 enum.
func c14Tail(s c14S, what int) []byte {
	nsep := v.Choose(0, v.Param("maxsep", 2))
	var sep []byte
	hasNL := false
	for i := 0; i < nsep; i++ {
		b := blank()
		sep = append(sep, b)
	}
	for _, b := range sep {
		if b == '\n' || b == '\r' {
			hasNL = true
		}
	}
	ntail := v.Choose(0, v.Param("maxtail", 2))
	if ntail == 0 {
		// nothing but blanks after S: the text ends where S ends. (A user comment that runs to the
		// end of the text is left out by Len and counted when a line break follows it; whether it
		// belongs to S is not settled by the statement, so these templates are not claimed here.)
		for i := 0; i < len(s.text); i++ {
			v.Assume(s.text[i] != '#')
		}
		v.Observe("case", "end-of-text/"+string([]byte{s.end}))
		return sep
	}
	tail := v.Bytes(ntail)
	t0 := tail[0]
	// foreign text starts with a non-blank byte
	v.Assume(t0 != ' ' && t0 != '\t' && t0 != '\n' && t0 != '\r')
	if what != 1 {
		// comments and annotations are schema / enum syntax
		v.Assume(t0 != '#' && t0 != '/')
	}
	switch s.end {
	case 'n':
		if nsep == 0 {
			v.Assume(!('0' <= t0 && t0 <= '9') && t0 != '.' && t0 != 'e' && t0 != 'E')
		}
	case 'w':
		// a keyword directly followed by text is one token for a reader; require a separator
		if nsep == 0 {
			v.Assume(false)
		}
	case 's':
		if nsep == 0 {
			v.Assume(!isNameByte(t0))
		}
		v.Assume(t0 != '|')
	case 'a':
		// the rest of the line belongs to the inline annotation
		v.Assume(hasNL)
	}
	if s.end == 'n' && nsep == 0 {
		// "a foreign byte directly after" is claimed for brackets and quotes only
		v.Assume(false)
	}
	if s.end == 'm' && nsep == 0 {
		v.Assume(false)
	}
	if s.end == 's' && nsep == 0 {
		v.Assume(false)
	}
	cls := "separated"
	if nsep == 0 {
		cls = "adjacent-after-" + string([]byte{s.end})
	}
	for i := 1; i < len(tail); i++ {
		if tail[i] == '\n' || tail[i] == '\r' {
			cls += "+line-break-in-tail"
			break
		}
	}
	for i := 1; i < len(tail); i++ {
		if tail[i] == '/' || tail[i] == '#' {
			cls += "+comment-char-in-tail"
			break
		}
	}
	cls += "/" + string([]byte{s.end})
	v.Observe("case", cls)
	out := append([]byte{}, sep...)
	return append(out, tail...)
}

// ZZC14Schema: Len of S ++ sep ++ tail is len(S) and the prefix is accepted.
func ZZC14Schema() {
	s := c14Schemas[v.Choose(0, len(c14Schemas)-1)]
	text := append([]byte(s.text), c14Tail(s, 0)...)
	v.Observe("text", text)
	l, err := jschema.New("s", text).Len()
	v.Assert(err == nil, "C14/schema-len-error")
	if err != nil {
		return
	}
	v.Assert(int(l) == len(s.text), "C14/schema-len-value")
	if int(l) <= len(text) {
		sc := jschema.New("p", text[:l])
		if s.end == 's' {
			// a type shortcut needs its types to be checked; only lexical completeness is claimed here
			_, e2 := sc.Len()
			v.Assert(e2 == nil, "C14/schema-prefix-rejected")
		} else {
			v.Assert(sc.Check() == nil, "C14/schema-prefix-rejected")
		}
	}
	v.Reach("C14/schema")
}

// ZZC14SchemaBad: a text that does not begin with a lexically complete schema gives an error.
func ZZC14SchemaBad() {
	pre := []string{`{`, `{"a"`, `{"a":`, `[1,`, `"a`, `-`, `tru`, `@`, `1 // {min`, `1 /* {min: 0}`, `{"a": 1`}
	p := pre[v.Choose(0, len(pre)-1)]
	v.Observe("text", p)
	_, err := jschema.New("s", p).Len()
	v.Assert(err != nil, "C14/incomplete-schema-has-len")
}

// ZZC14JSON: documents with trailing characters allowed.
func ZZC14JSON() {
	s := c14Docs[v.Choose(0, len(c14Docs)-1)]
	text := append([]byte(s.text), c14Tail(s, 1)...)
	v.Observe("text", text)
	l, err := json.New("d", text, json.AllowTrailingNonSpaceCharacters()).Len()
	v.Assert(err == nil, "C14/json-len-error")
	if err != nil {
		return
	}
	v.Assert(int(l) == len(s.text), "C14/json-len-value")
	if int(l) <= len(text) {
		v.Assert(json.New("p", text[:l]).Check() == nil, "C14/json-prefix-rejected")
	}
	v.Reach("C14/json")
}

// ZZC14Enum: enum rules.
func ZZC14Enum() {
	s := c14Enums[v.Choose(0, len(c14Enums)-1)]
	text := append([]byte(s.text), c14Tail(s, 2)...)
	v.Observe("text", text)
	l, err := enum.New("e", text).Len()
	v.Assert(err == nil, "C14/enum-len-error")
	if err != nil {
		return
	}
	v.Assert(int(l) == len(s.text), "C14/enum-len-value")
	if int(l) <= len(text) {
		v.Assert(enum.New("p", text[:l]).Check() == nil, "C14/enum-prefix-rejected")
	}
	v.Reach("C14/enum")
}

func init() {
	ZZHarnesses["ZZC14Schema"] = ZZC14Schema
	ZZHarnesses["ZZC14SchemaBad"] = ZZC14SchemaBad
	ZZHarnesses["ZZC14JSON"] = ZZC14JSON
	ZZHarnesses["ZZC14Enum"] = ZZC14Enum
}
