//go:build verif

package zzverif

import (
	stdErrors "errors"

	"github.com/jsightapi/jsight-schema-go-library/errors"
	"github.com/jsightapi/jsight-schema-go-library/formats/json"
	"github.com/jsightapi/jsight-schema-go-library/notations/jschema"
	"github.com/jsightapi/jsight-schema-go-library/zzverif/v"
)

const (
	eNone     = iota
	eReq      // "pj": @Tj
	eOpt      // "pj": @Tj // {optional: true}
	eArr      // "pj": [ @Tj ]
	eOrLeaf   // "pj": @Tj | @leaf      (terminating alternative)
	eOrLoop   // "pj": @Tj | @loopj     (all members loop)
	eReqFalse // "pj": @Tj // {optional: false}   (explicitly required)
	nEdgeKinds
)

// c09Reverse: render the properties of type 0 in reverse order (set per path by ZZC09Graph).
var c09Reverse bool

func c09Name(i int) string { return "@T" + string([]byte{byte('0' + i)}) }

// c09TypeText renders type i as an object whose properties are its outgoing edges.
func c09TypeText(i, n int, edge [][]int) string { return c09TypeTextDup(i, n, edge, false) }

// c09TypeTextDup: with dup, type 0 gets a second required property "q1": @T1 (a sibling branch to the same type).
func c09TypeTextDup(i, n int, edge [][]int, dup bool) string {
	props := []string{"\"v\": 1"}
	anns := []string{""}
	if dup && i == 0 && n > 1 {
		props = append(props, "\"q1\": "+c09Name(1))
		anns = append(anns, "")
	}
	for jj := 0; jj < n; jj++ {
		j := jj
		if c09Reverse && i == 0 {
			j = n - 1 - jj // the properties of type 0 in descending order of the type they refer to
		}
		k := edge[i][j]
		if k == eNone {
			continue
		}
		p := "\"p" + string([]byte{byte('0' + j)}) + "\": "
		ann := ""
		switch k {
		case eReq:
			p += c09Name(j)
		case eOpt:
			p += c09Name(j)
			ann = " // {optional: true}"
		case eArr:
			p += "[\n    " + c09Name(j) + "\n  ]"
		case eOrLeaf:
			p += c09Name(j) + " | @leaf"
		case eOrLoop:
			p += c09Name(j) + " | @loop" + string([]byte{byte('0' + j)})
		case eReqFalse:
			p += c09Name(j)
			ann = " // {optional: false}"
		}
		props = append(props, p)
		anns = append(anns, ann)
	}
	out := "{"
	for k := range props {
		out += "\n  " + props[k]
		if k < len(props)-1 {
			out += ","
		}
		out += anns[k]
	}
	return out + "\n}"
}

// ZZC09Graph: recursion is decided correctly and accepted graphs terminate.
func ZZC09Graph() {
	n := v.Param("types", 2)
	edge := make([][]int, n)
	nonNone := 0
	maxEdges := v.Param("maxedges", 4)
	for i := 0; i < n; i++ {
		edge[i] = make([]int, n)
		for j := 0; j < n; j++ {
			if nonNone >= maxEdges {
				continue
			}
			if v.Param("edgeset", 0) == 1 {
				// a smaller alphabet (none, required, or with a terminating member) lets 4 edges over 3 types fit the quick tier
				edge[i][j] = []int{eNone, eReq, eOrLeaf}[v.Choose(0, 2)]
			} else {
				edge[i][j] = v.Choose(0, nEdgeKinds-1)
			}
			if edge[i][j] != eNone {
				nonNone++
			}
		}
	}
	c09Reverse = v.Param("reverse", 0) != 0 && v.Choose(0, 1) == 1
	dup := v.Param("dup", 0) != 0 && n > 1 && v.Choose(0, 1) == 1
	root := jschema.New("root", "@T0")
	if v.Param("inlineroot", 0) != 0 {
		// the checked schema is the body of type 0 itself (not a reference to it)
		root = jschema.New("root", c09TypeTextDup(0, n, edge, dup))
	}
	desc := ""
	var names []string
	var schemas []*jschema.Schema
	add := func(name, text string) {
		sc := jschema.New(name, text)
		names = append(names, name)
		schemas = append(schemas, sc)
	}
	for i := 0; i < n; i++ {
		t := c09TypeTextDup(i, n, edge, dup)
		desc += c09Name(i) + "=" + t + " "
		add(c09Name(i), t)
	}
	add("@leaf", "1")
	for j := 0; j < n; j++ {
		// @loopJ is an alias object that requires @TJ again: the second, equally looping or-member
		nm := "@loop" + string([]byte{byte('0' + j)})
		add(nm, "{\n  \"again\": "+c09Name(j)+"\n}")
	}
	if v.Param("deep", 0) != 0 {
		// every type is also registered on every type's own schema (a caller that keeps one registry for
		// all its schemas): the recursion checker then follows references out of added types as well
		for i := range schemas {
			for j := range schemas {
				if i != j {
					v.Assert(schemas[i].AddType(names[j], schemas[j]) == nil, "C09/addtype-failed")
				}
			}
		}
	}
	for i := range schemas {
		v.Assert(root.AddType(names[i], schemas[i]) == nil, "C09/addtype-failed")
	}
	v.Observe("graph", desc)
	// reference: least fixpoint "has a finite inhabitant" - only required edges matter
	inh := make([]bool, n)
	for round := 0; round <= n; round++ {
		for i := 0; i < n; i++ {
			ok := true
			for j := 0; j < n; j++ {
				if (edge[i][j] == eReq || edge[i][j] == eReqFalse || edge[i][j] == eOrLoop) && !inh[j] {
					ok = false
				}
			}
			if dup && i == 0 && !inh[1] {
				ok = false
			}
			if ok {
				inh[i] = true
			}
		}
	}
	// reachable from T0 through required edges (those are the chains Check expands)
	// classification for the known-finding fingerprint: does some required cycle pass through two or more types?
	multi := "single-type-cycle"
	for i := 0; i < n; i++ {
		for j := 0; j < n; j++ {
			if i != j && (edge[i][j] == eReq || edge[i][j] == eReqFalse || edge[i][j] == eOrLoop) {
				multi = "cycle-through-several-types"
			}
			if edge[i][j] == eOrLoop || dup {
				multi = "cycle-through-several-types"
			}
		}
	}
	v.Observe("cycle", multi)
	// does T0 refer (through any kind of edge) to a type without a finite instance?
	reach := make([]bool, n)
	reach[0] = true
	for round := 0; round < n; round++ {
		for i := 0; i < n; i++ {
			for j := 0; j < n; j++ {
				if reach[i] && (edge[i][j] != eNone || (dup && i == 0 && j == 1)) {
					reach[j] = true
				}
			}
		}
	}
	unin := "all-reachable-types-inhabited"
	for j := 0; j < n; j++ {
		if reach[j] && !inh[j] {
			unin = "refers-to-uninhabited-type"
		}
	}
	v.Observe("inhabitation", unin)
	cerr := root.Check()
	if inh[0] {
		v.Reach("C09/finite")
		v.Assert(cerr == nil, "C09/finite-graph-rejected")
		if cerr != nil {
			return
		}
		ex, eerr := root.Example()
		v.Assert(eerr == nil, "C09/example-fails-on-accepted-graph")
		if eerr == nil {
			v.Assert(root.Validate(json.New("d", ex)) == nil, "C09/example-of-accepted-graph-rejected")
		}
	} else {
		v.Reach("C09/infinite")
		v.Assert(cerr != nil, "C09/infinite-recursion-accepted")
	}
}

// ZZC09Missing: a referenced but missing type makes Check fail naming it;
// UsedUserTypes lists exactly the names the schema text references, once each.
func ZZC09Missing() {
	forms := []struct {
		text  string
		names []string
	}{
		{`@a`, []string{"@a"}},
		{`@a | @b`, []string{"@a", "@b"}},
		{"{\n  \"x\": @a,\n  \"y\": @a,\n  \"z\": [\n    @b\n  ]\n}", []string{"@a", "@b"}},
		{`"zz" // {type: "@b"}`, []string{"@b"}},
		{`"zz" // {or: ["@b", "string"]}`, []string{"@b"}},
		{"{ // {allOf: \"@a\"}\n  \"k\": 1\n}", []string{"@a"}},
		{"{ // {additionalProperties: \"@b\"}\n  \"k\": 1\n}", []string{"@b"}},
		{"{\n  @b: 1\n}", []string{"@b"}},
		{"{\n  @b: @a\n}", []string{"@b", "@a"}},
		{"{\n  @b: [\n    @a\n  ],\n  \"k\": 1\n}", []string{"@b", "@a"}},
		{"{\n  \"x\": @a | @b, // {optional: true}\n  \"y\": { // {allOf: \"@a\"}\n    \"q\": @b\n  }\n}", []string{"@a", "@b"}},
		{"{\n  @b: 1,\n  @c: 2\n}", []string{"@b", "@c"}},
		{"{\n  @c: 1,\n  \"k\": 3,\n  @b: 2\n}", []string{"@c", "@b"}},
		{"{\n  \"o\": {\n    @b: 1,\n    @c: @a\n  }\n}", []string{"@b", "@c", "@a"}},
	}
	f := forms[v.Choose(0, len(forms)-1)]
	v.Observe("schema", f.text)
	s := jschema.New("s", f.text)
	missing := v.Choose(-1, 2) // -1: nothing missing; 0: @a missing; 1: @b missing; 2: @c missing
	if missing != 0 {
		v.Assert(s.AddType("@a", jschema.New("@a", `{"p": 1}`)) == nil, "C09/addtype-failed")
	}
	if missing != 1 {
		v.Assert(s.AddType("@b", jschema.New("@b", `"kk"`)) == nil, "C09/addtype-failed")
	}
	if missing != 2 {
		v.Assert(s.AddType("@c", jschema.New("@c", `"cc" // {minLength: 1}`)) == nil, "C09/addtype-failed")
	}
	v.Observe("missing", missing)
	used, uerr := s.UsedUserTypes()
	v.Assert(uerr == nil, "C09/used-types-error")
	if uerr == nil {
		okSet := len(used) == len(f.names)
		for _, nm := range f.names {
			cnt := 0
			for _, u := range used {
				if u == nm {
					cnt++
				}
			}
			if cnt != 1 {
				okSet = false
			}
		}
		v.Observe("used", used)
		v.Assert(okSet, "C09/used-user-types")
	}
	cerr := s.Check()
	referenced := false
	want := ""
	if missing >= 0 {
		want = []string{"@a", "@b", "@c"}[missing]
		for _, nm := range f.names {
			if nm == want {
				referenced = true
			}
		}
	}
	if referenced {
		v.Reach("C09/missing")
		v.Assert(cerr != nil, "C09/missing-type-accepted")
		if cerr != nil {
			var de errors.DocumentError
			if stdErrors.As(cerr, &de) {
				v.Assert(de.Code() == errors.ErrTypeNotFound || de.Code() == errors.ErrUnknownType, "C09/missing-type-wrong-code")
			}
		}
	} else {
		v.Reach("C09/complete")
		v.Assert(cerr == nil, "C09/complete-graph-rejected")
	}
}

func init() {
	ZZHarnesses["ZZC09Graph"] = ZZC09Graph
	ZZHarnesses["ZZC09Missing"] = ZZC09Missing
	ZZHarnesses["ZZC09AllOf"] = ZZC09AllOf
	ZZHarnesses["ZZC09OrTypes"] = ZZC09OrTypes
}

// ZZC09AllOf: every type may inherit (allOf) from one other type; a cycle of parents anywhere must be
// rejected, every acyclic forest accepted, and on accepted forests Example terminates and validates.
// selfroot=1: the checked schema is type 0 itself, registered under its own name (as the
// repository's recursion tests do); otherwise the root is a reference to type 0.
func ZZC09AllOf() {
	n := v.Param("types", 3)
	parent := make([]int, n)
	body := func(i int) string {
		t := "{"
		if parent[i] >= 0 {
			t += " // {allOf: \"" + c09Name(parent[i]) + "\"}"
		}
		if v.Choose(0, 1) == 1 {
			t += "\n  \"p" + string([]byte{byte('0' + i)}) + "\": 1"
		}
		return t + "\n}"
	}
	for i := 0; i < n; i++ {
		parent[i] = v.Choose(-1, n-1)
	}
	selfRoot := v.Param("selfroot", 1) != 0 && v.Choose(0, 1) == 1
	var root *jschema.Schema
	desc := ""
	start := 0
	if selfRoot {
		t := body(0)
		root = jschema.New("@T0", t)
		desc += "root=@T0=" + t + " "
		v.Assert(root.AddType("@T0", root) == nil, "C09/addtype-failed")
		start = 1
	} else {
		root = jschema.New("root", "@T0")
	}
	for i := start; i < n; i++ {
		t := body(i)
		desc += c09Name(i) + "=" + t + " "
		v.Assert(root.AddType(c09Name(i), jschema.New(c09Name(i), t)) == nil, "C09/addtype-failed")
	}
	v.Observe("graph", desc)
	v.Observe("selfroot", selfRoot)
	cyclic := false
	for i := 0; i < n; i++ {
		j := i
		for step := 0; step <= n && j >= 0; step++ {
			j = parent[j]
			if j == i {
				cyclic = true
			}
		}
	}
	cerr := root.Check()
	if cyclic {
		v.Reach("C09/allof-cycle")
		v.Assert(cerr != nil, "C09/allof-cycle-accepted")
		return
	}
	v.Reach("C09/allof-forest")
	v.Assert(cerr == nil, "C09/allof-forest-rejected")
	if cerr != nil {
		return
	}
	ex, eerr := root.Example()
	v.Assert(eerr == nil, "C09/example-fails-on-accepted-graph")
	if eerr == nil {
		v.Assert(root.Validate(json.New("d", ex)) == nil, "C09/example-of-accepted-graph-rejected")
	}
}

// ZZC09OrTypes: user types whose body is an or shortcut over other types, themselves or a leaf.
// A type has a finite instance iff some member has one (least fixpoint); Check accepts the root
// iff it has one, and on accepted graphs validation terminates: the leaf value is accepted iff
// the leaf is reachable through or members, a value of another kind is rejected.
func ZZC09OrTypes() {
	n := v.Param("types", 2)
	members := make([][]int, n) // member index n = @leaf
	for i := 0; i < n; i++ {
		k := v.Choose(1, 2)
		for j := 0; j < k; j++ {
			members[i] = append(members[i], v.Choose(0, n))
		}
	}
	name := func(j int) string {
		if j == n {
			return "@leaf"
		}
		return c09Name(j)
	}
	rootKind := v.Choose(0, 3)
	// the root refers to type 0 by a shortcut, through a type rule or through an or rule on a literal example
	rootText := []string{"@T0", "7 // {type: \"@T0\"}", "7 // {or: [\"@T0\", \"@leaf\"]}", "{\n  \"x\": 7 // {type: \"@T0\"}\n}"}[rootKind]
	root := jschema.New("root", rootText)
	desc := "root=" + rootText + " "
	for i := 0; i < n; i++ {
		t := ""
		for j, m := range members[i] {
			if j > 0 {
				t += " | "
			}
			t += name(m)
		}
		desc += c09Name(i) + "=" + t + " "
		v.Assert(root.AddType(c09Name(i), jschema.New(c09Name(i), t)) == nil, "C09/addtype-failed")
	}
	v.Assert(root.AddType("@leaf", jschema.New("@leaf", "7")) == nil, "C09/addtype-failed")
	v.Observe("graph", desc)
	inh := make([]bool, n)
	for round := 0; round <= n; round++ {
		for i := 0; i < n; i++ {
			for _, m := range members[i] {
				if m == n || inh[m] {
					inh[i] = true
				}
			}
		}
	}
	// fingerprint of the known finding: the loop leaves type 0
	cyc := "single-type-cycle"
	for _, m := range members[0] {
		if m != 0 {
			cyc = "cycle-through-several-types"
		}
	}
	v.Observe("cycle", cyc)
	// does type 0 refer (through any member) to a type without a finite instance? (fingerprint of the
	// known finding about examples that run into such a type)
	reach := make([]bool, n)
	reach[0] = true
	for round := 0; round < n; round++ {
		for i := 0; i < n; i++ {
			for _, m := range members[i] {
				if reach[i] && m < n {
					reach[m] = true
				}
			}
		}
	}
	unin := "all-reachable-types-inhabited"
	for j := 0; j < n; j++ {
		if reach[j] && !inh[j] {
			unin = "refers-to-uninhabited-type"
		}
	}
	v.Observe("inhabitation", unin)
	rootInh := inh[0] || rootKind == 2
	cerr := root.Check()
	if !rootInh {
		v.Reach("C09/or-types-infinite")
		v.Assert(cerr != nil, "C09/infinite-recursion-accepted")
		return
	}
	v.Reach("C09/or-types-finite")
	v.Assert(cerr == nil, "C09/finite-graph-rejected")
	if cerr != nil {
		return
	}
	good, bad := "5", `"s"`
	if rootKind == 3 {
		good, bad = `{"x":5}`, `{"x":"s"}`
	}
	v.Assert(root.Validate(json.New("d", good)) == nil, "C09/or-types-leaf-value-rejected")
	v.Assert(root.Validate(json.New("d", bad)) != nil, "C09/or-types-foreign-value-accepted")
	ex, eerr := root.Example()
	v.Assert(eerr == nil, "C09/example-fails-on-accepted-graph")
	if eerr == nil {
		v.Assert(root.Validate(json.New("d", ex)) == nil, "C09/example-of-accepted-graph-rejected")
	}
}
