//go:build verif

package zzverif

import (
	stdjson "encoding/json"
	"net/url"
	"regexp"
	"time"
)

const timeRFC3339 = time.RFC3339

func timeParse(layout, s string) (time.Time, error) { return time.Parse(layout, s) }
func urlParse(s string) (*url.URL, error)          { return url.ParseRequestURI(s) }
func reMatch(p string, b []byte) bool              { return regexp.MustCompile(p).Match(b) }

func jsonMarshal(x interface{}) ([]byte, error) { return stdjson.Marshal(x) }
