//go:build verif

package zzverif

import (
	"github.com/jsightapi/jsight-schema-go-library/notations/jschema"
	"github.com/jsightapi/jsight-schema-go-library/zzverif/gen"
	"github.com/jsightapi/jsight-schema-go-library/zzverif/v"
)

type c08Rule struct {
	name, val string
}

var c08Pool = []c08Rule{
	{"min", "1"}, {"max", "9"}, {"exclusiveMinimum", "true"}, {"exclusiveMinimum", "false"}, {"exclusiveMaximum", "true"},
	{"minLength", "1"}, {"maxLength", "5"}, {"regex", `"a"`},
	{"type", `"integer"`}, {"type", `"float"`}, {"type", `"string"`}, {"type", `"decimal"`}, {"type", `"any"`}, {"type", `"email"`}, {"type", `"mixed"`}, {"type", `"boolean"`}, {"type", `"null"`}, {"type", `"object"`}, {"type", `"array"`}, {"type", `"enum"`}, {"type", `"@t"`}, {"type", `"bogus"`},
	{"precision", "2"}, {"optional", "true"}, {"optional", "false"}, {"nullable", "true"}, {"nullable", "false"}, {"const", "true"}, {"const", "false"},
	{"enum", `[5, "a", 1.5, true, null]`}, {"or", `[{type: "integer"}, {type: "string"}]`}, {"or", `["@t", "string"]`},
	{"minItems", "1"}, {"maxItems", "3"}, {"additionalProperties", "true"}, {"additionalProperties", `"string"`}, {"allOf", `"@t"`}, {"bogusRule", "1"},
	{"exclusiveMaximum", "false"},
}

// node kinds: example text and whether it is rendered as a property of an object
var c08Nodes = []struct {
	text string
	kind gen.Kind
}{
	{`5`, gen.KInt}, {`1.5`, gen.KFloat}, {`"a"`, gen.KStr}, {`true`, gen.KBool}, {`null`, gen.KNull},
	{`{}`, gen.KObj}, {`[]`, gen.KArr},
}

func c08Schema(node int, asProp bool, rules []c08Rule, quoted int) []byte {
	var ann []byte
	for i, r := range rules {
		if i > 0 {
			ann = append(ann, ", "...)
		}
		if quoted == i {
			ann = append(ann, '"')
			ann = append(ann, r.name...)
			ann = append(ann, '"')
		} else {
			ann = append(ann, r.name...)
		}
		ann = append(ann, ": "...)
		ann = append(ann, r.val...)
	}
	ex := c08Nodes[node].text
	var out []byte
	if c08Nodes[node].kind == gen.KArr {
		// non-empty array: the annotation goes on the line of the opening bracket
		if asProp {
			out = append(out, "{\n  \"k\": [ // {"...)
			out = append(out, ann...)
			return append(out, "}\n    1\n  ]\n}"...)
		}
		out = append(out, "[ // {"...)
		out = append(out, ann...)
		return append(out, "}\n  1\n]"...)
	}
	if asProp {
		out = append(out, "{\n  \"k\": "...)
		out = append(out, ex...)
		out = append(out, " // {"...)
		out = append(out, ann...)
		out = append(out, "}\n}"...)
		return out
	}
	out = append(out, ex...)
	out = append(out, " // {"...)
	out = append(out, ann...)
	return append(out, '}')
}

func c08Verdict(text []byte, oo ...jschema.Option) bool {
	s := jschema.New("s", text, oo...)
	t := jschema.New("t", `{"x": 1}`, oo...)
	if err := s.AddType("@t", t); err != nil {
		// the schema itself was refused while the type was being added: Check refuses it as well
		v.Assert(s.Check() != nil, "C08/check-passes-after-refused-addtype")
		return false
	}
	return s.Check() == nil
}

func c08Check(text []byte) bool {
	ok := c08Verdict(text)
	// whether a rule applies to a node is not a matter of the option that makes keys optional
	v.Assert(c08Verdict(text, jschema.KeysAreOptionalByDefault()) == ok, "C08/verdict-depends-on-keys-option")
	return ok
}

var perms3 = [][]int{{0, 1, 2}, {0, 2, 1}, {1, 0, 2}, {1, 2, 0}, {2, 0, 1}, {2, 1, 0}}

// ZZC08Order: the verdict of Check is the same for every ordering of the
// rules inside an annotation (all k-subsets of the rule pool, every node kind,
// root and property position).
func ZZC08Order() {
	node := v.Choose(0, len(c08Nodes)-1)
	asProp := v.Choose(0, 1) == 1
	k := v.Param("k", 2)
	n := len(c08Pool)
	var idx []int
	prev := -1
	for i := 0; i < k; i++ {
		j := v.Choose(prev+1, n-(k-i))
		idx = append(idx, j)
		prev = j
	}
	rules := make([]c08Rule, k)
	for i, j := range idx {
		rules[i] = c08Pool[j]
	}
	base := c08Schema(node, asProp, rules, -1)
	v.Observe("schema", base)
	want := c08Check(base)
	if want {
		v.Reach("C08/accepted")
	} else {
		v.Reach("C08/rejected")
	}
	if k == 2 {
		sw := c08Schema(node, asProp, []c08Rule{rules[1], rules[0]}, -1)
		v.Observe("permuted", sw)
		v.Assert(c08Check(sw) == want, "C08/verdict-depends-on-rule-order")
	} else if k == 3 {
		for _, p := range perms3[1:] {
			pr := []c08Rule{rules[p[0]], rules[p[1]], rules[p[2]]}
			sw := c08Schema(node, asProp, pr, -1)
			if c08Check(sw) != want {
				v.Observe("permuted", sw)
				v.Fail("C08/verdict-depends-on-rule-order")
			}
		}
	}
	// quoting a rule name does not matter either (C13 overlap, cheap here)
	q := c08Schema(node, asProp, rules, 0)
	v.Assert(c08Check(q) == want, "C08/verdict-depends-on-quoting-of-rule-name")
}

var c08Flags = []c08Rule{
	{"nullable", "false"}, {"const", "false"}, {"optional", "false"}, {"nullable", "true"}, {"const", "true"}, {"optional", "true"},
}

// ZZC08OrderFlags: two of the boolean flags (written true or false; false ones are filtered out by the
// compiler, which walks the rule list while deleting from it) together with any third rule of the
// pool: the verdict is the same in all six orders.
func ZZC08OrderFlags() {
	node := v.Choose(0, len(c08Nodes)-1)
	asProp := v.Choose(0, 1) == 1
	a := v.Choose(0, len(c08Flags)-2)
	b := v.Choose(a+1, len(c08Flags)-1)
	v.Assume(c08Flags[a].name != c08Flags[b].name)
	third := c08Pool[v.Choose(0, len(c08Pool)-1)]
	v.Assume(third.name != c08Flags[a].name && third.name != c08Flags[b].name)
	rules := []c08Rule{c08Flags[a], c08Flags[b], third}
	base := c08Schema(node, asProp, rules, -1)
	v.Observe("schema", base)
	want := c08Check(base)
	if want {
		v.Reach("C08/accepted")
	} else {
		v.Reach("C08/rejected")
	}
	for _, p := range perms3[1:] {
		pr := []c08Rule{rules[p[0]], rules[p[1]], rules[p[2]]}
		sw := c08Schema(node, asProp, pr, -1)
		if c08Check(sw) != want {
			v.Observe("permuted", sw)
			v.Fail("C08/verdict-depends-on-rule-order")
		}
	}
	// nullable: false and const: false are inert: leaving them out does not change the verdict
	// (on every node, not only on the root of the schema)
	var kept []c08Rule
	for _, r := range rules {
		if (r.name == "nullable" || r.name == "const") && r.val == "false" {
			continue
		}
		kept = append(kept, r)
	}
	if len(kept) < len(rules) && len(kept) > 0 {
		without := c08Schema(node, asProp, kept, -1)
		v.Observe("without", without)
		v.Assert(c08Check(without) == want, "C08/false-valued-flag-is-not-inert")
	}
}

// single-rule applicability table of the statement
func c08Applies(r c08Rule, k gen.Kind, asProp bool) bool {
	num := k == gen.KInt || k == gen.KFloat
	switch r.name {
	case "min", "max":
		return num
	case "exclusiveMinimum", "exclusiveMaximum":
		return false // needs its bound
	case "minLength", "maxLength", "regex":
		return k == gen.KStr
	case "precision":
		return k == gen.KFloat // a float example becomes decimal
	case "optional":
		return asProp
	case "nullable", "const":
		return k != gen.KObj && k != gen.KArr || r.name == "nullable"
	case "minItems", "maxItems":
		return k == gen.KArr
	case "additionalProperties", "allOf":
		return k == gen.KObj
	case "bogusRule":
		return false
	}
	return true
}

// ZZC08Single: one rule on every node kind against the applicability table
// (only for the rules whose applicability does not depend on the example value).
func ZZC08Single() {
	node := v.Choose(0, len(c08Nodes)-1)
	asProp := v.Choose(0, 1) == 1
	names := []int{0, 1, 2, 3, 4, 5, 6, 7, 22, 23, 24, 25, 26, 32, 33, 34, 36, 37, 38}
	r := c08Pool[names[v.Choose(0, len(names)-1)]]
	text := c08Schema(node, asProp, []c08Rule{r}, -1)
	v.Observe("schema", text)
	got := c08Check(text)
	want := c08Applies(r, c08Nodes[node].kind, asProp)
	if r.name == "min" && c08Nodes[node].kind == gen.KFloat || r.name == "max" {
		// value rules: the examples 5 / 1.5 satisfy min:1 and max:9
	}
	if r.name == "minLength" || r.name == "maxLength" || r.name == "regex" {
		// "a" satisfies minLength 1, maxLength 5, regex a
	}
	v.Assert(got == want, "C08/single-rule-applicability")
}

// ZZC08Pairs: ordering of paired bounds with symbolic digits.
func ZZC08Pairs() {
	which := v.Choose(0, 2)
	a, b := uintLit(), uintLit()
	var text []byte
	strict := false
	switch which {
	case 0:
		flags := v.Choose(0, 2)
		text = cat(bs("5 // {min: "), a, bs(", max: "), b)
		if flags == 1 {
			text = cat(text, bs(", exclusiveMinimum: true"))
			strict = true
		} else if flags == 2 {
			text = cat(text, bs(", exclusiveMaximum: true"))
			strict = true
		}
		text = cat(text, bs("}"))
		// keep the example inside the bounds so that only the pair ordering decides
		v.Assume(a[0] < '5' && b[0] > '5')
	case 1:
		text = cat(bs(`"abc" // {minLength: `), a, bs(", maxLength: "), b, bs("}"))
	case 2:
		text = cat(bs("[ // {minItems: "), a, bs(", maxItems: "), b, bs("}\n  1,\n  2,\n  3\n]"))
	}
	v.Observe("schema", text)
	got := jschema.New("s", text).Check() == nil
	want := a[0] <= b[0]
	if strict {
		want = a[0] < b[0]
	}
	switch which {
	case 1:
		want = want && a[0] <= '3' && b[0] >= '3'
	case 2:
		want = want && a[0] <= '3' && b[0] >= '3'
	}
	if want {
		v.Reach("C08/pair-accepted")
	} else {
		v.Reach("C08/pair-rejected")
	}
	v.Assert(got == want, "C08/paired-bounds-ordering")
}

// ZZC08Triples: curated three-rule combinations (a type reference / or / enum / any with its
// allowed companions optional+nullable, bounds with both exclusive flags, ...) in all six orders
// against the expected verdict.
func ZZC08Triples() {
	type tri struct {
		node   int // index into c08Nodes
		asProp bool
		rules  [3]c08Rule
		ok     bool
	}
	cases := []tri{
		{0, true, [3]c08Rule{{"type", `"@ti"`}, {"optional", "true"}, {"nullable", "true"}}, true},
		{0, true, [3]c08Rule{{"type", `"@ti"`}, {"optional", "false"}, {"nullable", "true"}}, true},
		{0, true, [3]c08Rule{{"type", `"@ti"`}, {"optional", "true"}, {"min", "1"}}, false},
		{0, true, [3]c08Rule{{"or", `[{type: "integer"}, {type: "string"}]`}, {"optional", "true"}, {"nullable", "true"}}, true},
		{0, true, [3]c08Rule{{"or", `[{type: "integer"}, {type: "string"}]`}, {"optional", "true"}, {"min", "1"}}, false},
		{0, true, [3]c08Rule{{"enum", `[5, 6]`}, {"optional", "true"}, {"nullable", "true"}}, true},
		{0, true, [3]c08Rule{{"enum", `[5, 6]`}, {"optional", "true"}, {"min", "1"}}, false},
		{0, true, [3]c08Rule{{"type", `"any"`}, {"optional", "true"}, {"nullable", "true"}}, true},
		{0, false, [3]c08Rule{{"min", "1"}, {"max", "9"}, {"exclusiveMinimum", "true"}}, true},
		{0, false, [3]c08Rule{{"min", "5"}, {"max", "5"}, {"exclusiveMaximum", "true"}}, false},
		{0, false, [3]c08Rule{{"min", "5"}, {"max", "5"}, {"exclusiveMaximum", "false"}}, true},
		{1, false, [3]c08Rule{{"type", `"decimal"`}, {"precision", "2"}, {"min", "1"}}, true},
		{2, false, [3]c08Rule{{"type", `"email"`}, {"minLength", "1"}, {"nullable", "true"}}, false},
		{2, true, [3]c08Rule{{"minLength", "1"}, {"maxLength", "5"}, {"optional", "true"}}, true},
		{2, false, [3]c08Rule{{"minLength", "1"}, {"maxLength", "5"}, {"optional", "true"}}, false},
		{6, true, [3]c08Rule{{"minItems", "1"}, {"maxItems", "3"}, {"optional", "true"}}, true},
		{5, true, [3]c08Rule{{"additionalProperties", "true"}, {"nullable", "true"}, {"optional", "true"}}, true},
	}
	c := cases[v.Choose(0, len(cases)-1)]
	p := perms3[v.Choose(0, 5)]
	rules := []c08Rule{c.rules[p[0]], c.rules[p[1]], c.rules[p[2]]}
	text := c08Schema(c.node, c.asProp, rules, -1)
	v.Observe("schema", text)
	s := jschema.New("s", text)
	// AddType loads the schema first, so a rule-set rejected by the loader shows up here already
	got := s.AddType("@ti", jschema.New("@ti", "7")) == nil && s.Check() == nil
	v.Assert(got == c.ok, "C08/three-rule-combination")
	v.Reach("C08/triples")
}

// ZZC08Item: a rule set is judged the same on an array item (and on an item of an array under a
// property) as on a root value: 1..2 rules of the pool, every scalar and empty-container kind.
func ZZC08Item() {
	node := v.Choose(0, len(c08Nodes)-1)
	v.Assume(c08Nodes[node].kind != gen.KArr) // the array template of c08Schema has its own item
	k := v.Choose(1, 2)
	var rules []c08Rule
	prev := -1
	for i := 0; i < k; i++ {
		j := v.Choose(prev+1, len(c08Pool)-(k-i))
		prev = j
		v.Assume(c08Pool[j].name != "optional") // applies to object properties only
		rules = append(rules, c08Pool[j])
	}
	rootText := c08Schema(node, false, rules, -1)
	want := c08Check(rootText)
	ann := string(rootText[len(c08Nodes[node].text):]) // " // {...}"
	item := "[\n  " + c08Nodes[node].text + ann + "\n]"
	v.Observe("root", rootText)
	v.Observe("item", item)
	v.Assert(c08Check(bs(item)) == want, "C08/verdict-differs-on-array-item")
	nested := "{\n  \"list\": [\n    " + c08Nodes[node].text + ann + "\n  ]\n}"
	v.Assert(c08Check(bs(nested)) == want, "C08/verdict-differs-on-array-item")
	if want {
		v.Reach("C08/item-accepted")
	} else {
		v.Reach("C08/item-rejected")
	}
}

// ZZC08Dup: a rule written twice in one annotation is refused whatever the node is - a literal, a
// container, a type shortcut or a list of alternatives - and whatever the two values are.
func ZZC08Dup() {
	nodes := []string{`5`, `"a"`, `true`, `null`, `@t`, `@t | @u`, `{}`, `[]`}
	node := nodes[v.Choose(0, len(nodes)-1)]
	rules := [][2]string{
		{"nullable", "true"}, {"nullable", "false"}, {"optional", "true"}, {"optional", "false"}, {"const", "false"}, {"const", "true"},
		{"min", "1"}, {"minLength", "1"}, {"type", `"any"`}, {"minItems", "0"}, {"additionalProperties", "true"},
	}
	r1 := rules[v.Choose(0, len(rules)-1)]
	r2 := r1
	if v.Choose(0, 1) == 1 {
		// the same rule with another value
		for _, r := range rules {
			if r[0] == r1[0] && r[1] != r1[1] {
				r2 = r
			}
		}
	}
	asProp := v.Choose(0, 1) == 1
	ann := " // {" + r1[0] + ": " + r1[1] + ", " + r2[0] + ": " + r2[1] + "}"
	single := " // {" + r1[0] + ": " + r1[1] + "}"
	build := func(a string) string {
		if asProp {
			return "{\n  \"k\": " + node + a + "\n}"
		}
		return node + a
	}
	v.Observe("schema", build(ann))
	check := func(text string) error {
		s := jschema.New("s", text)
		_ = s.AddType("@t", jschema.New("@t", `{"x": 1}`))
		_ = s.AddType("@u", jschema.New("@u", `"s"`))
		return s.Check()
	}
	v.Assert(check(build(ann)) != nil, "C08/duplicate-rule-accepted")
	if check(build(single)) == nil {
		v.Reach("C08/dup-of-applicable-rule")
	} else {
		v.Reach("C08/dup-of-inapplicable-rule")
	}
}

func init() {
	ZZHarnesses["ZZC08Dup"] = ZZC08Dup
	ZZHarnesses["ZZC08Item"] = ZZC08Item
	ZZHarnesses["ZZC08Triples"] = ZZC08Triples
	ZZHarnesses["ZZC08Order"] = ZZC08Order
	ZZHarnesses["ZZC08OrderFlags"] = ZZC08OrderFlags
	ZZHarnesses["ZZC08Single"] = ZZC08Single
	ZZHarnesses["ZZC08Pairs"] = ZZC08Pairs
}
