//go:build verif

package zzverif

import (
	jlib "github.com/jsightapi/jsight-schema-go-library"
	"github.com/jsightapi/jsight-schema-go-library/notations/jschema"
	"github.com/jsightapi/jsight-schema-go-library/zzverif/gen"
	"github.com/jsightapi/jsight-schema-go-library/zzverif/v"
)

type c16Rule struct {
	name, tok string
	val       []byte // expected Value (strings unquoted)
}

type c16Want struct {
	tok, styp string
	key       []byte
	val       []byte
	note      []byte
	rules     []c16Rule
	kids      []*c16Want
}

func strEq(s string, b []byte) bool {
	if len(s) != len(b) {
		return false
	}
	for i := range b {
		if s[i] != b[i] {
			return false
		}
	}
	return true
}

func noteText() []byte {
	n := v.Choose(1, 2)
	out := make([]byte, 0, n)
	for i := 0; i < n; i++ {
		c := v.Byte()
		v.Assume(c > 0x20 && c < 0x7f && c != '#')
		if i == 0 {
			v.Assume(c != '{' && c != '-')
		}
		out = append(out, c)
	}
	return out
}

// c16Leaf builds a scalar example with rules/notes and the expected AST node.
func c16Leaf(asProp bool) (*gen.Ex, *c16Want) { return c16LeafB(asProp, false) }

// c16LeafB: with boolRules the boolean-valued rules (optional, nullable, const) are written with either value.
func c16LeafB(asProp, boolRules bool) (*gen.Ex, *c16Want) {
	w := &c16Want{}
	var e *gen.Ex
	switch v.Choose(0, 3) {
	case 0:
		lit := gen.NumLit(v.Choose(0, 1))
		e = &gen.Ex{Kind: gen.KInt, Lit: lit}
		w.tok, w.styp, w.val = "number", "integer", lit
		switch v.Choose(0, 2) {
		case 1:
			p := gen.NumLit(0)
			e.Rules = append(e.Rules, gen.Rule{Name: "min", Value: p})
			w.rules = append(w.rules, c16Rule{"min", "number", p})
		case 2:
			p, q := gen.NumLit(0), gen.NumLit(1)
			e.Rules = append(e.Rules, gen.Rule{Name: "max", Value: q}, gen.Rule{Name: "min", Value: p})
			w.rules = append(w.rules, c16Rule{"max", "number", q}, c16Rule{"min", "number", p})
		}
	case 1:
		lit, dec := docString(2, 1)
		e = &gen.Ex{Kind: gen.KStr, Lit: lit}
		w.tok, w.styp, w.val = "string", "string", dec
		if v.Choose(0, 1) == 1 {
			p := uintLit()
			e.Rules = append(e.Rules, gen.Rule{Name: "maxLength", Value: p})
			w.rules = append(w.rules, c16Rule{"maxLength", "number", p})
		}
	case 2:
		lit := gen.NumLit(3)
		e = &gen.Ex{Kind: gen.KFloat, Lit: lit}
		w.tok, w.styp, w.val = "number", "float", lit
		switch v.Choose(0, 2) {
		case 1:
			e.Rules = append(e.Rules, gen.Rule{Name: "precision", Value: bs("3")})
			w.rules = append(w.rules, c16Rule{"precision", "number", bs("3")})
			w.styp = "decimal"
		case 2:
			// bounds written with a decimal point (possibly a trailing zero): the AST keeps the spelling
			p, q := gen.NumLit(4), gen.NumLit(6)
			e.Rules = append(e.Rules, gen.Rule{Name: "min", Value: p}, gen.Rule{Name: "max", Value: q})
			w.rules = append(w.rules, c16Rule{"min", "number", p}, c16Rule{"max", "number", q})
		}
	case 3:
		lit := gen.BoolLit()
		e = &gen.Ex{Kind: gen.KBool, Lit: lit}
		w.tok, w.styp, w.val = "boolean", "boolean", lit
		if v.Choose(0, 1) == 1 {
			e.Rules = append(e.Rules, gen.Rule{Name: "type", Value: bs(`"any"`)})
			w.rules = append(w.rules, c16Rule{"type", "string", bs("any")})
			w.styp = "any"
		}
	}
	// generic rules written by the renderer before e.Rules: optional, nullable
	var pre []c16Rule
	tf := []string{"", "true", "false"}
	hiB := 1
	if boolRules {
		hiB = 2
	}
	if asProp {
		if o := v.Choose(0, hiB); o != 0 {
			e.Optional = gen.Tri(o)
			pre = append(pre, c16Rule{"optional", "boolean", bs(tf[o])})
		}
	}
	if n := v.Choose(0, hiB); n != 0 {
		e.Nullable = gen.Tri(n)
		pre = append(pre, c16Rule{"nullable", "boolean", bs(tf[n])})
	}
	// a written const rule (true or false) is listed like any other, first or last among the specific rules
	c := 0
	if boolRules && w.styp != "any" {
		c = v.Choose(0, 2)
	}
	if c != 0 {
		r, wr := gen.Rule{Name: "const", Value: bs(tf[c])}, c16Rule{"const", "boolean", bs(tf[c])}
		if v.Choose(0, 1) == 0 {
			e.Rules = append([]gen.Rule{r}, e.Rules...)
			w.rules = append([]c16Rule{wr}, w.rules...)
		} else {
			e.Rules = append(e.Rules, r)
			w.rules = append(w.rules, wr)
		}
	}
	if w.styp == "any" {
		// the renderer writes `type: "any"` via Rules here, after optional/nullable
	}
	w.rules = append(pre, w.rules...)
	if v.Choose(0, 1) == 1 {
		n := noteText()
		e.Note = n
		w.note = n
	}
	return e, w
}

func c16Compare(a jlib.ASTNode, w *c16Want, path string) {
	v.Assert(a.TokenType == w.tok, "C16/token-type")
	v.Assert(a.SchemaType == w.styp, "C16/schema-type")
	v.Assert(strEq(a.Key, w.key), "C16/key")
	v.Assert(strEq(a.Value, w.val), "C16/value")
	v.Assert(strEq(a.Comment, w.note), "C16/note")
	v.Assert(!a.IsKeyShortcut, "C16/key-shortcut-flag")
	var names []string
	var rules []jlib.RuleASTNode
	if a.Rules != nil {
		a.Rules.EachSafe(func(k string, r jlib.RuleASTNode) {
			names = append(names, k)
			rules = append(rules, r)
		})
	}
	v.Assert(len(names) == len(w.rules), "C16/rule-count")
	if len(names) == len(w.rules) {
		for i, r := range w.rules {
			v.Assert(names[i] == r.name, "C16/rule-order-or-name")
			v.Assert(rules[i].TokenType == r.tok, "C16/rule-token-type")
			v.Assert(strEq(rules[i].Value, r.val), "C16/rule-value")
			v.Assert(rules[i].Source == jlib.RuleASTNodeSourceManual, "C16/rule-source")
		}
	}
	v.Assert(len(a.Children) == len(w.kids), "C16/child-count")
	if len(a.Children) == len(w.kids) {
		for i := range w.kids {
			c16Compare(a.Children[i], w.kids[i], path)
		}
	}
}

// ZZC16: the AST mirrors the schema text.
func ZZC16() {
	var root *gen.Ex
	var want *c16Want
	switch v.Choose(0, 2) {
	case 0:
		root, want = c16Leaf(false)
	case 1:
		root = &gen.Ex{Kind: gen.KObj}
		want = &c16Want{tok: "object", styp: "object"}
		n := v.Choose(1, 2)
		for i := 0; i < n; i++ {
			var e *gen.Ex
			var w *c16Want
			if i == 0 {
				e, w = c16Leaf(true)
			} else {
				e = &gen.Ex{Kind: gen.KArr, Kids: []*gen.Ex{{Kind: gen.KNull, Lit: bs("null")}}}
				w = &c16Want{tok: "array", styp: "array", kids: []*c16Want{{tok: "null", styp: "null", val: bs("null")}}}
			}
			k := []byte{byte('a' + i)}
			if i == 0 {
				k = keyText()
				v.Assume(len(k) <= 2) // plain keys only: Key holds the decoded text
			}
			root.Keys = append(root.Keys, k)
			root.Kids = append(root.Kids, e)
			w.key = k
			want.kids = append(want.kids, w)
		}
		if v.Choose(0, 1) == 1 {
			root.Rules = append(root.Rules, gen.Rule{Name: "additionalProperties", Value: bs("true")})
			want.rules = append(want.rules, c16Rule{"additionalProperties", "boolean", bs("true")})
		}
	case 2:
		root = &gen.Ex{Kind: gen.KArr}
		want = &c16Want{tok: "array", styp: "array"}
		n := v.Choose(1, 2)
		for i := 0; i < n; i++ {
			var e *gen.Ex
			var w *c16Want
			if i == 0 {
				e, w = c16Leaf(false)
			} else {
				e = &gen.Ex{Kind: gen.KObj}
				w = &c16Want{tok: "object", styp: "object"}
			}
			root.Kids = append(root.Kids, e)
			want.kids = append(want.kids, w)
		}
		if v.Choose(0, 1) == 1 {
			root.Rules = append(root.Rules, gen.Rule{Name: "minItems", Value: bs("1")})
			want.rules = append(want.rules, c16Rule{"minItems", "number", bs("1")})
		}
	}
	st := gen.Schema(root)
	v.Observe("schema", st)
	s := jschema.New("s", st)
	v.Assume(s.Check() == nil)
	ast, err := s.GetAST()
	v.Assert(err == nil, "C16/getast-error")
	if err != nil {
		return
	}
	v.Reach("C16/ast")
	c16Compare(ast, want, "")
}

func init() { ZZHarnesses["ZZC16"] = ZZC16 }

// ZZC16Bool: boolean-valued rules written as true or as false (optional, nullable, const) are listed
// in the AST as written, on a root value and on a property.
func ZZC16Bool() {
	var root *gen.Ex
	var want *c16Want
	if v.Choose(0, 1) == 0 {
		root, want = c16LeafB(false, true)
	} else {
		e, w := c16LeafB(true, true)
		w.key = bs("k")
		root = &gen.Ex{Kind: gen.KObj, Keys: [][]byte{bs("k")}, Kids: []*gen.Ex{e}}
		want = &c16Want{tok: "object", styp: "object", kids: []*c16Want{w}}
	}
	st := gen.Schema(root)
	v.Observe("schema", st)
	s := jschema.New("s", st)
	v.Assume(s.Check() == nil)
	ast, err := s.GetAST()
	v.Assert(err == nil, "C16/getast-error")
	if err != nil {
		return
	}
	v.Reach("C16/bool-rules")
	c16Compare(ast, want, "")
}

func init() { ZZHarnesses["ZZC16Bool"] = ZZC16Bool }

// ZZC16Cases: reference nodes, or/enum/allOf items, key shortcuts, generated
// rules - compared with reviewed expected ASTs (JSON form).
func ZZC16Cases() {
	c := c16Goldens[v.Choose(0, len(c16Goldens)-1)]
	v.Observe("schema", c.root)
	s := jschema.New("s", c.root)
	for _, t := range c.types {
		v.Assert(s.AddType(t[0], jschema.New(t[0], t[1])) == nil, "C16/addtype-failed")
	}
	ast, err := s.GetAST()
	v.Assert(err == nil, "C16/getast-error")
	if err != nil {
		return
	}
	// the rule maps handed out are separate objects: writing to one of them (they are public ordered
	// maps) must not show in another rule, nor in the AST of another schema object
	var maps []*jlib.RuleASTNodes
	c16CollectMaps(ast, &maps)
	other, oerr := jschema.New("o", `5 // {min: 1, max: 9}`).GetAST()
	if oerr == nil {
		c16CollectMaps(other, &maps)
	}
	for i := range maps {
		for j := 0; j < i; j++ {
			v.Assert(maps[i] != maps[j], "C16/ast-rule-maps-shared")
		}
	}
	if len(maps) > 1 {
		maps[0].Set("zzprobe", jlib.RuleASTNode{Value: "x"})
		for _, m := range maps[1:] {
			v.Assert(!m.Has("zzprobe"), "C16/ast-rule-maps-shared")
		}
		maps[0].Delete("zzprobe")
	}
	js, jerr := jsonMarshal(ast)
	v.Assert(jerr == nil, "C16/marshal-error")
	v.Observe("ast", js)
	v.Assert(string(js) == c.want, "C16/ast-differs-from-expected")
	v.Reach("C16/cases")
}

// c16CollectMaps gathers every ordered map reachable from an AST (node rules, rule properties, nested items).
func c16CollectMaps(a jlib.ASTNode, out *[]*jlib.RuleASTNodes) {
	var rule func(r jlib.RuleASTNode)
	rule = func(r jlib.RuleASTNode) {
		if r.Properties != nil {
			*out = append(*out, r.Properties)
			r.Properties.EachSafe(func(_ string, x jlib.RuleASTNode) { rule(x) })
		}
		for _, it := range r.Items {
			rule(it)
		}
	}
	if a.Rules != nil {
		*out = append(*out, a.Rules)
		a.Rules.EachSafe(func(_ string, r jlib.RuleASTNode) { rule(r) })
	}
	for _, c := range a.Children {
		c16CollectMaps(c, out)
	}
}

// ZZC16Keys: the key of a property node is the decoded key text, and IsKeyShortcut tells how the key
// was written (@name without quotes), not what its text looks like: quoted keys that spell a type
// name are ordinary keys.
func ZZC16Keys() {
	keys := []string{"@id", "@type", "@a-b_1", "@", "mail@host", "name", "@k", `caf\u00e9`, `\u004B\u006a`, `\u20ac`}
	decoded := []string{"@id", "@type", "@a-b_1", "@", "mail@host", "name", "@k", "caf\u00e9", "Kj", "\u20ac"}
	ki := v.Choose(0, len(keys)-1)
	k := keys[ki]
	pos := v.Choose(0, 2) // the only key, before a shortcut key, after one
	text := "{\n"
	if pos == 2 {
		text += "  @k: 2,\n"
	}
	text += "  \"" + k + "\": \"" + k + "\""
	if pos == 1 {
		text += ",\n  @k: 2"
	}
	text += "\n}"
	v.Observe("schema", text)
	s := jschema.New("s", text)
	v.Assert(s.AddType("@k", jschema.New("@k", `"kk"`)) == nil, "C16/addtype-failed")
	ast, err := s.GetAST()
	v.Assert(err == nil, "C16/getast-error")
	if err != nil {
		return
	}
	want := 1
	if pos > 0 {
		want = 2
	}
	v.Assert(len(ast.Children) == want, "C16/child-count")
	if len(ast.Children) != want {
		return
	}
	for i, c := range ast.Children {
		shortcut := (pos == 1 && i == 1) || (pos == 2 && i == 0)
		v.Assert(c.IsKeyShortcut == shortcut, "C16/key-shortcut-flag")
		if shortcut {
			v.Assert(c.Key == "@k", "C16/key-text")
		} else {
			// keys and string values are given decoded
			v.Assert(c.Key == decoded[ki], "C16/key-text")
			v.Assert(c.Value == decoded[ki], "C16/value-text")
		}
	}
	v.Reach("C16/keys")
}

func init() {
	ZZHarnesses["ZZC16Cases"] = ZZC16Cases
	ZZHarnesses["ZZC16Keys"] = ZZC16Keys
}
