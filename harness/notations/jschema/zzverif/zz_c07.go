//go:build verif

package zzverif

import (
	stdErrors "errors"
	"io"

	jlib "github.com/jsightapi/jsight-schema-go-library"
	"github.com/jsightapi/jsight-schema-go-library/errors"
	"github.com/jsightapi/jsight-schema-go-library/formats/json"
	"github.com/jsightapi/jsight-schema-go-library/fs"
	"github.com/jsightapi/jsight-schema-go-library/kit"
	"github.com/jsightapi/jsight-schema-go-library/notations/jschema"
	"github.com/jsightapi/jsight-schema-go-library/notations/regex"
	"github.com/jsightapi/jsight-schema-go-library/rules/enum"
	"github.com/jsightapi/jsight-schema-go-library/zzverif/v"
)

type codeMsg interface {
	ErrCode() int
	Message() string
}

// c07err checks that err (result of call `what` on a source of srcLen bytes)
// is a structured library error with a position inside the source and a
// renderable text.
func c07err(err error, srcLen int, what string) {
	if err == nil {
		return
	}
	v.Reach("C07/error")
	var de errors.DocumentError
	isDE := stdErrors.As(err, &de)
	_, isCM := err.(codeMsg)
	if !isDE && !isCM {
		v.Observe("errtype", v.TypeOf(err))
	}
	v.Assert(isDE || isCM, "C07/unstructured-error/"+what)
	if pe, ok := err.(jlib.ParsingError); ok {
		lim := srcLen
		if lim < 1 {
			lim = 1
		}
		v.Assert(int(pe.Position()) < lim, "C07/position-outside-source/"+what)
	}
	ok := false
	func() {
		defer func() { recover() }()
		_ = err.Error()
		ok = true
	}()
	v.Assert(ok, "C07/error-text-panics/"+what)
}

func c07max(a, b int) int {
	if a > b {
		return a
	}
	return b
}

// guard runs f and asserts that it does not panic.
func guard(what string, f func()) {
	ok := false
	func() {
		defer func() { recover() }()
		f()
		ok = true
	}()
	v.Assert(ok, "C07/panic/"+what)
}

func c07Schema(x []byte) {
	n := len(x)
	guard("schema.Check", func() { c07err(jschema.New("s", x).Check(), n, "schema.Check") })
	guard("schema.Len", func() {
		l, err := jschema.New("s", x).Len()
		c07err(err, n, "schema.Len")
		if err == nil {
			v.Assert(int(l) <= n, "C07/len-beyond-source")
		}
	})
	guard("schema.Example", func() {
		_, err := jschema.New("s", x).Example()
		c07err(err, n, "schema.Example")
	})
	guard("schema.GetAST", func() {
		_, err := jschema.New("s", x).GetAST()
		c07err(err, n, "schema.GetAST")
	})
	guard("schema.UsedUserTypes", func() {
		_, err := jschema.New("s", x).UsedUserTypes()
		c07err(err, n, "schema.UsedUserTypes")
	})
	guard("schema.Validate", func() {
		err := jschema.New("s", x).Validate(json.New("d", "1"))
		c07err(err, c07max(n, 1), "schema.Validate")
	})
	// the same object, several calls
	guard("schema.sequence", func() {
		s := jschema.New("s", x)
		_, e1 := s.Len()
		e2 := s.Check()
		_, e3 := s.Example()
		e4 := s.Validate(json.New("d", `"a"`))
		c07err(e1, n, "seq.Len")
		c07err(e2, n, "seq.Check")
		c07err(e3, n, "seq.Example")
		c07err(e4, c07max(n, 3), "seq.Validate")
	})
}

func c07AddType(x []byte) {
	guard("addtype", func() {
		root := jschema.New("root", "@t")
		err := root.AddType("@t", jschema.New("t", x))
		c07err(err, len(x), "AddType")
		if err == nil {
			cerr := root.Check()
			if cerr != nil {
				// the error may refer to the added type's file; only renderability and structure are checked here
				var de errors.DocumentError
				isDE := stdErrors.As(cerr, &de)
				_, isCM := cerr.(codeMsg)
				if !isDE && !isCM {
					v.Observe("errtype", v.TypeOf(cerr))
				}
				v.Assert(isDE || isCM, "C07/unstructured-error/addtype.Check")
				if isDE {
					v.Assert(int(de.Position()) < c07max(len(x), 1), "C17/added-type-error-position-outside-type-text")
				}
				ok := false
				func() {
					defer func() { recover() }()
					_ = cerr.Error()
					ok = true
				}()
				v.Assert(ok, "C07/error-text-panics/addtype.Check")
			}
		}
	})
}

func c07Enum(x []byte) {
	n := len(x)
	guard("enum.Check", func() { c07err(enum.New("e", x).Check(), n, "enum.Check") })
	guard("enum.Len", func() {
		l, err := enum.New("e", x).Len()
		c07err(err, n, "enum.Len")
		if err == nil {
			v.Assert(int(l) <= n, "C07/len-beyond-source")
		}
	})
	guard("enum.Values", func() {
		_, err := enum.New("e", x).Values()
		c07err(err, n, "enum.Values")
	})
	guard("enum.GetAST", func() {
		_, err := enum.New("e", x).GetAST()
		c07err(err, n, "enum.GetAST")
	})
}

func c07Regex(x []byte) {
	n := len(x)
	guard("regex.Check", func() { c07err(regex.New("r", x).Check(), n, "regex.Check") })
	guard("regex.Len", func() {
		l, err := regex.New("r", x).Len()
		c07err(err, n, "regex.Len")
		if err == nil {
			v.Assert(int(l) <= n, "C07/len-beyond-source")
		}
	})
	guard("regex.Pattern", func() {
		_, err := regex.New("r", x).Pattern()
		c07err(err, n, "regex.Pattern")
	})
	guard("regex.GetAST", func() {
		_, err := regex.New("r", x).GetAST()
		c07err(err, n, "regex.GetAST")
	})
}

func c07JSON(x []byte) {
	n := len(x)
	guard("json.Check", func() { c07err(json.New("d", x).Check(), n, "json.Check") })
	guard("json.Len", func() {
		l, err := json.New("d", x).Len()
		c07err(err, n, "json.Len")
		if err == nil {
			v.Assert(int(l) <= n, "C07/len-beyond-source")
		}
	})
	guard("json.NextLexeme", func() {
		d := json.New("d", x)
		for i := 0; i < 4*n+8; i++ {
			_, err := d.NextLexeme()
			if err != nil {
				if !stdErrors.Is(err, io.EOF) {
					c07err(err, n, "json.NextLexeme")
				}
				return
			}
		}
		v.Fail("C07/json-lexeme-stream-does-not-end")
	})
	guard("kit.ConvertError", func() {
		f := fs.NewFile("d", x)
		err := json.FromFile(f).Check()
		if err != nil {
			ke := kit.ConvertError(f, err)
			lim := n
			if lim < 1 {
				lim = 1
			}
			v.Assert(int(ke.Position()) < lim, "C07/position-outside-source/kit")
			_ = ke.Message()
		}
	})
}

// ZZC07Bytes: every byte string of length 0..maxlen through the API family
// selected by `api` (0 schema, 1 added type, 2 enum, 3 regex, 4 json).
func ZZC07Bytes() {
	n := v.Choose(v.Param("minlen", 0), v.Param("maxlen", 2))
	x := v.Bytes(n)
	v.Observe("x", x)
	c07dispatch(v.Param("api", 0), x)
}

func c07dispatch(api int, x []byte) {
	switch api {
	case 0:
		c07Schema(x)
	case 1:
		c07AddType(x)
	case 2:
		c07Enum(x)
	case 3:
		c07Regex(x)
	case 4:
		c07JSON(x)
	}
}

var c07SchemaPrefixes = []string{
	"1 ", "1 #", "1 /", "1 //", "1 // ", "1 // {", "1 // {min", "1 // {min:", "1 // {min: 0", "1 // {min: 0}", "1 // {min: 0} ", "1 // -", "1 /*", "1 /* ", "1 /* {", "1 /* a ", "1 /* {min: 0} ",
	"@", "@a", "@a ", "@a |", "@a | ", "@a | @", "@a | @b", "{", "{\"a\"", "{\"a\":", "{\"a\": 1", "{\"a\": 1,", "{a", "{a:", "{@a", "{@a:", "[", "[1", "[1,", "\"a", "\"a\"", "1.", "-", "tr", "{} ", "[] ", "{}", "[]", "1 \n", "1 // {enum: [", "1 // {enum: [1", "1 // {or: [", "1 // {or: [{", "1 // {type: \"", "{ // {", "[ // ", "###", "###\n", "#a\n",
}

var c07EnumPrefixes = []string{"[", "[1", "[1,", "[1]", "[1] ", "[1] /", "[1] //", "[1] /*", "[1] /* ", "[1] /* a ", "[1] /* a *", "[\"", "[\"a", "[\"a\"", "[ //", "[ // a", "[ // a\n", "[1 /*", "[1 /* a */", "[1.", "[-", "[tr", "[1, //", "[1, // a\n", "[1 // a\n,"}

var c07RegexPrefixes = []string{"", "/", "/a", "/a\\", "/a\\/", "/a/", "/a/ ", "/[", "/(", "a", " "}

// ZZC07Holes: a concrete prefix reaching an interesting scanner state, then
// 0..holes fully symbolic bytes, then end of input.
func ZZC07Holes() {
	api := v.Param("api", 0)
	var pre []string
	switch api {
	case 0, 1:
		pre = c07SchemaPrefixes
	case 2:
		pre = c07EnumPrefixes
	case 3:
		pre = c07RegexPrefixes
	}
	x := []byte(pre[v.Choose(0, len(pre)-1)])
	k := v.Choose(0, v.Param("holes", 1))
	x = append(x, v.Bytes(k)...)
	v.Observe("x", x)
	c07dispatch(api, x)
}

func init() {
	ZZHarnesses["ZZC07Bytes"] = ZZC07Bytes
	ZZHarnesses["ZZC07Holes"] = ZZC07Holes
}
