//go:build verif

package zzverif

import (
	"github.com/jsightapi/jsight-schema-go-library/formats/json"
	"github.com/jsightapi/jsight-schema-go-library/internal/lexeme"
	"github.com/jsightapi/jsight-schema-go-library/notations/jschema"
	"github.com/jsightapi/jsight-schema-go-library/notations/regex"
	"github.com/jsightapi/jsight-schema-go-library/rules/enum"
	"github.com/jsightapi/jsight-schema-go-library/zzverif/v"
)

func c11Sig(err error) string {
	ok, c, p := errSig(err)
	if ok {
		return "ok"
	}
	return "err/" + itoa(c) + "/" + itoa(p)
}

func itoa(n int) string {
	if n < 0 {
		return "-" + itoa(-n)
	}
	if n < 10 {
		return string(rune('0' + n))
	}
	return itoa(n/10) + string(rune('0'+n%10))
}

// ZZC11Rules: histories on one Enum object and on one Regex object: every operation returns what
// it returns on a fresh object, whatever was called before (and how often). One byte of the text
// is symbolic, so valid and invalid texts of each shape are covered.
func ZZC11Rules() {
	c := v.Byte()
	n := v.Param("ops", 2)
	if v.Choose(0, 1) == 0 {
		texts := []string{"[1, ?]", "[\"a\", \"?\"] // note", "[1, 2?", "?1, 2]", "[\n  \"x\", // first\n  ? // second\n]", "[1] ?"}
		t := []byte(texts[v.Choose(0, len(texts)-1)])
		for i := range t {
			if t[i] == '?' {
				t[i] = c
			}
		}
		v.Observe("enum", t)
		obs := func(e *enum.Enum, op int) string {
			switch op {
			case 0:
				return "check:" + c11Sig(e.Check())
			case 1:
				l, err := e.Len()
				return "len:" + itoa(int(l)) + ":" + c11Sig(err)
			case 2:
				vals, err := e.Values()
				s := "values:" + c11Sig(err)
				for _, x := range vals {
					s += "," + string(x.Value)
				}
				return s
			}
			a, err := e.GetAST()
			s := "ast:" + c11Sig(err) + ":" + string(a.TokenType) + ":" + itoa(len(a.Children))
			return s
		}
		e := enum.New("@e", t)
		for i := 0; i < n; i++ {
			obs(e, v.Choose(0, 3))
		}
		for op := 0; op < 4; op++ {
			v.Assert(obs(e, op) == obs(enum.New("@e", t), op), "C11/enum-result-depends-on-history")
		}
		v.Reach("C11/enum-history")
		return
	}
	texts := []string{"/a?c/", "/a?c", "/?/ tail", "/a\\?/", "?abc/", "/[a-?]/"}
	t := []byte(texts[v.Choose(0, len(texts)-1)])
	for i := range t {
		if t[i] == '?' {
			t[i] = c
		}
	}
	v.Observe("regex", t)
	obs := func(r *regex.Schema, op int) string {
		switch op {
		case 0:
			return "check:" + c11Sig(r.Check())
		case 1:
			l, err := r.Len()
			return "len:" + itoa(int(l)) + ":" + c11Sig(err)
		case 2:
			p, err := r.Pattern()
			return "pattern:" + p + ":" + c11Sig(err)
		}
		a, err := r.GetAST()
		return "ast:" + c11Sig(err) + ":" + string(a.TokenType) + ":" + a.Value
	}
	r := regex.New("@r", t)
	for i := 0; i < n; i++ {
		obs(r, v.Choose(0, 3))
	}
	for op := 0; op < 4; op++ {
		v.Assert(obs(r, op) == obs(regex.New("@r", t), op), "C11/regex-result-depends-on-history")
	}
	v.Reach("C11/regex-history")
}

func init() { ZZHarnesses["ZZC11Rules"] = ZZC11Rules }

// ZZC11Shared: user-type, enum-rule objects are shared between schemas (one registry, many
// schemas). What one schema does - including a failing Check - must not change what another
// schema using the same objects returns; compared with the same schemas built from fresh objects.
func ZZC11Shared() {
	which := v.Choose(0, 1)
	first := v.Choose(0, 2) // what the other schema does first: nothing, Check, Check+Example
	run := func(shared bool) string {
		out := ""
		if which == 0 {
			// @T inherits from @B; the first schema knows @T only (its Check fails), the second knows both
			tText := "{ // {allOf: \"@B\"}\n  \"t\": 1\n}"
			t := jschema.New("@T", tText)
			b := jschema.New("@B", `{"b": 2}`)
			s1 := jschema.New("s1", "{\n  \"x\": @T\n}")
			_ = s1.AddType("@T", t)
			if shared && first > 0 {
				out += "s1:" + c11Sig(s1.Check()) + ";"
				if first > 1 {
					_, e := s1.Example()
					out += c11Sig(e) + ";"
				}
			} else if first > 0 {
				out += "s1:" + c11Sig(s1.Check()) + ";"
				if first > 1 {
					_, e := s1.Example()
					out += c11Sig(e) + ";"
				}
				t = jschema.New("@T", tText) // fresh objects for the second schema
				b = jschema.New("@B", `{"b": 2}`)
			}
			s2 := jschema.New("s2", "{\n  \"x\": @T\n}")
			_ = s2.AddType("@T", t)
			_ = s2.AddType("@B", b)
			out += "check:" + c11Sig(s2.Check())
			out += ";full:" + c11Sig(s2.Validate(json.New("d", `{"x":{"t":1,"b":2}}`)))
			out += ";part:" + c11Sig(s2.Validate(json.New("d", `{"x":{"t":1}}`)))
			ex, e := s2.Example()
			out += ";ex:" + string(ex) + ":" + c11Sig(e)
			return out
		}
		// one enum rule object used by two schemas; its text has a comment on a line of its own
		eText := "[\n  \"a\",\n  // a comment line\n  \"b\",\n  \"c\"\n]"
		e := enum.New("@e", eText)
		s1 := jschema.New("s1", `"a" // {enum: @e}`)
		_ = s1.AddRule("@e", e)
		if first > 0 {
			out += "s1:" + c11Sig(s1.Check()) + ";"
		}
		if !shared {
			e = enum.New("@e", eText)
		}
		vals, verr := e.Values()
		out += "values:" + c11Sig(verr)
		for _, x := range vals {
			out += "," + string(x.Value)
		}
		s2 := jschema.New("s2", `"b" // {enum: @e}`)
		_ = s2.AddRule("@e", e)
		out += ";check:" + c11Sig(s2.Check())
		out += ";c:" + c11Sig(s2.Validate(json.New("d", `"c"`)))
		out += ";z:" + c11Sig(s2.Validate(json.New("d", `"z"`)))
		return out
	}
	a, b := run(true), run(false)
	v.Observe("shared", a)
	v.Observe("fresh", b)
	v.Assert(a == b, "C11/result-depends-on-another-schema-sharing-the-object")
	v.Reach("C11/shared")
}

func init() { ZZHarnesses["ZZC11Shared"] = ZZC11Shared }

// ZZC11Interleave: two documents read in turns (any schedule of `steps` NextLexeme calls) deliver,
// each, the events they deliver when read alone.
func ZZC11Interleave() {
	texts := []string{`[1,{"k":[true]},"s"]`, `{"a":{"b":[null,2]},"c":[]}`, ` [ [ ] ] `, `"x"`}
	t1 := texts[v.Choose(0, len(texts)-1)]
	t2 := texts[v.Choose(0, len(texts)-1)]
	v.Observe("t1", t1)
	v.Observe("t2", t2)
	sig := func(lex lexeme.LexEvent, err error) string {
		if err != nil {
			return "E:" + c11Sig(err)
		}
		return lex.Type().String() + ":" + string(lex.Value())
	}
	alone := func(t string, n int) []string {
		d := json.New("d", t)
		var out []string
		for i := 0; i < n; i++ {
			out = append(out, sig(d.NextLexeme()))
		}
		return out
	}
	steps := v.Param("steps", 6)
	d1, d2 := json.New("d1", t1), json.New("d2", t2)
	var s1, s2 []string
	for i := 0; i < steps; i++ {
		if v.Choose(0, 1) == 0 {
			s1 = append(s1, sig(d1.NextLexeme()))
		} else {
			s2 = append(s2, sig(d2.NextLexeme()))
		}
	}
	a1, a2 := alone(t1, len(s1)), alone(t2, len(s2))
	same := true
	for i := range s1 {
		same = same && s1[i] == a1[i]
	}
	for i := range s2 {
		same = same && s2[i] == a2[i]
	}
	v.Assert(same, "C11/document-events-depend-on-another-document")
	v.Reach("C11/interleave")
}

func init() { ZZHarnesses["ZZC11Interleave"] = ZZC11Interleave }
