//go:build verif

package zzverif

import (
	jlib "github.com/jsightapi/jsight-schema-go-library"
	"github.com/jsightapi/jsight-schema-go-library/formats/json"
	"github.com/jsightapi/jsight-schema-go-library/notations/jschema"
	"github.com/jsightapi/jsight-schema-go-library/rules/enum"
	"github.com/jsightapi/jsight-schema-go-library/zzverif/gen"
	"github.com/jsightapi/jsight-schema-go-library/zzverif/v"
)

func spaceOrTab() byte {
	c := v.Byte()
	v.Assume(c == ' ' || c == '\t')
	return c
}

func commentText() []byte {
	n := v.Choose(0, 2)
	out := []byte{}
	for i := 0; i < n; i++ {
		c := v.Byte()
		// any byte except line breaks; '#' is excluded so that a ### block cannot end early
		v.Assume(c != '\n' && c != '\r' && c != '#')
		out = append(out, c)
	}
	return out
}

// c13Base: an object with a ruled scalar and an array, or a ruled scalar root.
func c13Base() *gen.Ex {
	rich := v.Param("rich", 0) != 0
	switch v.Choose(0, 3) {
	case 3:
		// a rule object that ends in a reference, a nested rule-set or a list (the scanner tells the end of the
		// rule object from what lies on its stack), alone or followed / preceded by another rule, as a property
		r := []gen.Rule{
			{Name: "enum", Value: bs("@sizes")},
			{Name: "type", Value: bs(`"@t"`)},
			{Name: "or", Value: bs(`[{type: "integer"}, {type: "string"}]`)},
			{Name: "or", Value: bs(`["@t", "integer"]`)},
			{Name: "enum", Value: bs(`["S", "M"]`)},
		}[v.Choose(0, 4)]
		a := &gen.Ex{Kind: gen.KStr, Lit: bs(`"S"`), Rules: []gen.Rule{r}}
		switch v.Choose(0, 2) {
		case 1:
			a.Optional = 1 // written before the specific rules
		case 2:
			a.Rules = append(a.Rules, gen.Rule{Name: "nullable", Value: bs("true")})
		}
		if v.Choose(0, 1) == 1 {
			a.Note = bs("a note")
		}
		return &gen.Ex{Kind: gen.KObj, Keys: [][]byte{bs("a"), bs("b")}, Kids: []*gen.Ex{a, {Kind: gen.KInt, Lit: bs("1")}}}
	case 0:
		e, _ := c04Leaf(true)
		return e
	case 1:
		a, _ := c04Leaf(rich)
		if v.Choose(0, 1) == 1 && len(a.Rules) > 0 {
			a.Note = bs("a note")
		}
		b := &gen.Ex{Kind: gen.KArr, Kids: []*gen.Ex{{Kind: gen.KInt, Lit: bs("1"), Nullable: 1}}, Rules: []gen.Rule{{Name: "minItems", Value: bs("0")}, {Name: "maxItems", Value: bs("3")}}}
		a.Optional = 1
		return &gen.Ex{Kind: gen.KObj, Keys: [][]byte{bs("a"), bs("b")}, Kids: []*gen.Ex{a, b}, Rules: []gen.Rule{{Name: "additionalProperties", Value: bs("false")}}}
	}
	a, _ := c04Leaf(rich)
	return &gen.Ex{Kind: gen.KArr, Kids: []*gen.Ex{a, {Kind: gen.KStr, Lit: bs(`"z"`), Rules: []gen.Rule{{Name: "minLength", Value: bs("1")}, {Name: "maxLength", Value: bs("2")}}}}}
}

// c13Style picks one rewrite (or a composition of two in the thorough tier).
func c13Style(st *gen.Style) string {
	switch v.Choose(0, 10) {
	case 10:
		// a user comment after the annotation (and its note) on the same line, under each line-end convention
		st.Tail = commentText()
		switch v.Choose(0, 2) {
		case 1:
			st.NL = bs("\r\n")
		case 2:
			st.NL = bs("\r")
		}
		return "comment-after-annotation"
	case 0:
		st.NL = bs("\r\n")
		return "crlf"
	case 1:
		st.NL = bs("\r")
		return "cr"
	case 2:
		st.Indent = []byte{spaceOrTab()}
		return "indent-1"
	case 3:
		st.Indent = []byte{}
		return "indent-0"
	case 4:
		st.Multi = true
		return "multi-line-annotation"
	case 5:
		st.QuoteNames = true
		return "quoted-names"
	case 6:
		st.TrailComma = true
		return "trailing-comma"
	case 7:
		st.Reverse = true
		return "reversed-rules"
	case 8:
		st.Comment = commentText()
		st.Block = v.Choose(0, 1) == 1
		return "user-comment"
	}
	st.Pad = []byte{spaceOrTab()}
	return "padding"
}

func ruleEq(a, b jlib.RuleASTNode) bool {
	if a.TokenType != b.TokenType || a.Value != b.Value || a.Source != b.Source || len(a.Items) != len(b.Items) {
		return false
	}
	for i := range a.Items {
		if !ruleEq(a.Items[i], b.Items[i]) {
			return false
		}
	}
	return rulesEq(a.Properties, b.Properties, false)
}

// rulesEq compares two rule maps; anyOrder: names may come in a different order (reversed-rules rewrite).
func rulesEq(a, b *jlib.RuleASTNodes, anyOrder bool) bool {
	var an, bn []string
	var ar, br []jlib.RuleASTNode
	if a != nil {
		a.EachSafe(func(k string, r jlib.RuleASTNode) { an = append(an, k); ar = append(ar, r) })
	}
	if b != nil {
		b.EachSafe(func(k string, r jlib.RuleASTNode) { bn = append(bn, k); br = append(br, r) })
	}
	if len(an) != len(bn) {
		return false
	}
	for i := range an {
		j := i
		if anyOrder {
			j = -1
			for k := range bn {
				if bn[k] == an[i] {
					j = k
				}
			}
			if j < 0 {
				return false
			}
		}
		if an[i] != bn[j] || !ruleEq(ar[i], br[j]) {
			return false
		}
	}
	return true
}

var c13AnyOrder bool

// astEq compares two ASTs, comments aside.
func astEq(a, b jlib.ASTNode) bool {
	if a.TokenType != b.TokenType || a.SchemaType != b.SchemaType || a.Key != b.Key || a.Value != b.Value ||
		a.IsKeyShortcut != b.IsKeyShortcut || len(a.Children) != len(b.Children) {
		return false
	}
	if !rulesEq(a.Rules, b.Rules, c13AnyOrder) {
		return false
	}
	for i := range a.Children {
		if !astEq(a.Children[i], b.Children[i]) {
			return false
		}
	}
	return true
}

// ZZC13Schema: re-spelling a schema leaves Check's verdict, the AST and every
// validation verdict unchanged.
func ZZC13Schema() {
	base := c13Base()
	var st gen.Style
	name := c13Style(&st)
	if v.Param("compose", 0) != 0 {
		name += "+" + c13Style(&st)
	}
	c13AnyOrder = st.Reverse
	t1 := gen.Schema(base)
	t2 := gen.SchemaStyled(base, st)
	v.Observe("rewrite", name)
	v.Observe("base", t1)
	v.Observe("respelled", t2)
	s1 := jschema.New("s", t1)
	s2 := jschema.New("s", t2)
	for _, s := range []*jschema.Schema{s1, s2} {
		// referenced by some base schemas; unused otherwise
		_ = s.AddRule("@sizes", enum.New("@sizes", `["S", "M"]`))
		_ = s.AddType("@t", jschema.New("@t", `"S"`))
	}
	e1, e2 := s1.Check(), s2.Check()
	v.Assert((e1 == nil) == (e2 == nil), "C13/check-verdict-changes-with-spelling")
	if e1 != nil || e2 != nil {
		v.Reach("C13/rejected")
		return
	}
	v.Reach("C13/accepted")
	a1, _ := s1.GetAST()
	a2, _ := s2.GetAST()
	v.Assert(astEq(a1, a2), "C13/ast-changes-with-spelling")
	// a document: the example itself with its first scalar replaced by a symbolic one of the same kind
	d := gen.ExampleDoc(base)
	leaf := d
	for leaf.Kind == gen.KObj || leaf.Kind == gen.KArr {
		leaf = leaf.Kids[0]
	}
	if leaf.Kind == gen.KInt {
		leaf.Lit = gen.NumLit(v.Choose(0, 2))
	} else {
		leaf.Lit, _ = docString(2, 2)
	}
	dt := gen.JSON(d)
	v.Observe("doc", dt)
	v1 := s1.Validate(json.New("d", dt))
	v2 := s2.Validate(json.New("d", dt))
	v.Assert((v1 == nil) == (v2 == nil), "C13/validation-verdict-changes-with-spelling")
}

// ZZC13Doc: re-spelling a document (white space, property order, string
// escapes in keys and values) leaves the validation verdict unchanged.
func ZZC13Doc() {
	s := jschema.New("s", "{\n  \"a/b\": \"x\", // {minLength: 1, maxLength: 2}\n  \"k\": 5, // {min: 1, optional: true}\n  \"arr\": [\n    \"e\" // {enum: [\"e\", \"f/g\", \"h\"]}\n  ]\n}")
	v.Assert(s.Check() == nil, "C13/doc-schema-rejected")
	// abstract document
	sv, sdec := docString(2, 2) // value of "a/b"
	_ = sdec
	hasK := v.Choose(0, 1) == 1
	kv := gen.NumLit(0)
	el := [][]byte{bs(`"e"`), bs(`"f/g"`), bs(`"x"`)}[v.Choose(0, 2)]
	// spelling 1: canonical
	var d1 []byte
	d1 = cat(bs(`{"a/b":`), sv)
	if hasK {
		d1 = cat(d1, bs(`,"k":`), kv)
	}
	d1 = cat(d1, bs(`,"arr":[`), el, bs(`]}`))
	// spelling 2
	// one or two white-space sites (chosen by selectors) get a symbolic blank
	site1 := v.Choose(-1, 9)
	site2 := -1
	if v.Param("twosites", 0) != 0 {
		site2 = v.Choose(-1, 9)
	}
	nsite := 0
	ws := func() []byte {
		k := nsite
		nsite++
		if k != site1 && k != site2 {
			return nil
		}
		c := v.Byte()
		v.Assume(c == ' ' || c == '\t' || c == '\n' || c == '\r')
		return []byte{c}
	}
	key := [][]byte{bs(`"a/b"`), bs(`"a\/b"`), bs(`"a/b"`), bs(`"a/b"`)}[v.Choose(0, 3)]
	el2 := el
	if len(el) == 5 && v.Choose(0, 1) == 1 {
		el2 = bs(`"f\/g"`)
	}
	if len(el) == 3 && el[1] == 'e' && v.Choose(0, 1) == 1 {
		el2 = bs(`"e"`)
	}
	order := v.Choose(0, 1)
	var d2 []byte
	p1 := cat(key, ws(), bs(":"), ws(), sv)
	p3 := cat(bs(`"arr"`), bs(":"), ws(), bs("["), ws(), el2, ws(), bs("]"))
	d2 = cat(ws(), bs("{"), ws())
	if order == 0 {
		d2 = cat(d2, p1)
		if hasK {
			d2 = cat(d2, bs(","), ws(), bs(`"k":`), kv)
		}
		d2 = cat(d2, ws(), bs(","), p3)
	} else {
		d2 = cat(d2, p3, bs(","))
		if hasK {
			d2 = cat(d2, bs(`"k":`), kv, ws(), bs(","))
		}
		d2 = cat(d2, p1)
	}
	d2 = cat(d2, ws(), bs("}"), ws())
	v.Observe("doc1", d1)
	v.Observe("doc2", d2)
	r1 := s.Validate(json.New("d", d1))
	r2 := s.Validate(json.New("d", d2))
	if r1 == nil {
		v.Reach("C13/doc-accepted")
	} else {
		v.Reach("C13/doc-rejected")
	}
	v.Assert((r1 == nil) == (r2 == nil), "C13/validation-verdict-changes-with-document-spelling")
}

// ZZC13Pairs: pairs of spellings of the same schema / document that differ in
// quoting of nested rule names or in string escape sequences.
func ZZC13Pairs() {
	pairs := [][3]string{
		// schema A, schema B, document ("" = compare Check only)
		{`1 // {or: [{type: "integer", min: 1}, {type: "string", minLength: 1}]}`, `1 // {"or": [{"type": "integer", "min": 1}, {"type": "string", "minLength": 1}]}`, `"s"`},
		{`"s" // {enum: ["s", "t"]}`, `"s" // {"enum": ["s", "t"]}`, `"t"`},
		{`1 // {or: [{enum: [1, 2]}, {type: "string"}]}`, `1 // {or: [{"enum": [1, 2]}, {"type": "string"}]}`, `2`},
		{`1 // {or: [{enum: [1, 2]}, {type: "string"}]}`, `1 /* {"or": [{"enum": [1, 2]}, {type: "string"}]} */`, `"s"`},
		{"{ // {additionalProperties: \"string\"}\n  \"a\": 1\n}", "{ // {\"additionalProperties\": \"string\"}\n  \"a\": 1\n}", `{"a":1,"b":"x"}`},
	}
	p := pairs[v.Choose(0, len(pairs)-1)]
	v.Observe("a", p[0])
	v.Observe("b", p[1])
	sa, sb := jschema.New("a", p[0]), jschema.New("b", p[1])
	ea, eb := sa.Check(), sb.Check()
	v.Assert((ea == nil) == (eb == nil), "C13/check-verdict-changes-with-spelling")
	// the pairs are meant to be accepted: a pair that both spellings reject compares nothing
	v.Assert(ea == nil, "C13/pair-rejected-by-check")
	if ea == nil && eb == nil {
		ra := sa.Validate(json.New("d", p[2]))
		rb := sb.Validate(json.New("d", p[2]))
		v.Assert((ra == nil) == (rb == nil), "C13/validation-verdict-changes-with-spelling")
	}
	// documents: the same string value spelled with different escape sequences, against const / enum / length rules
	schemas := []string{`"a/b" // {const: true}`, `"a/b" // {enum: ["a/b", "c"]}`, `"a/b" // {minLength: 3, maxLength: 3}`, `"a/b" // {regex: "^a/b$"}`}
	sc := jschema.New("s", schemas[v.Choose(0, len(schemas)-1)])
	v.Assert(sc.Check() == nil, "C13/doc-schema-rejected")
	d1 := `"a/b"`
	d2 := []string{`"a\/b"`, `"\u0061/b"`, `"a\u002fb"`, `"a\u002Fb"`}[v.Choose(0, 3)]
	v.Observe("doc2", d2)
	r1 := sc.Validate(json.New("d", d1))
	r2 := sc.Validate(json.New("d", d2))
	v.Assert(r1 == nil, "C13/doc-example-rejected")
	v.Assert((r1 == nil) == (r2 == nil), "C13/validation-verdict-changes-with-document-spelling")
	// a document key spelled with escapes, against a key shortcut with a bare and with a ruled key type
	kt := []string{`"a/b"`, `"a/b" // {minLength: 3}`, `"a/b" // {regex: "^a/b$"}`, `"a/b" // {enum: ["a/b", "c"]}`}[v.Choose(0, 3)]
	v.Observe("keytype", kt)
	ks := jschema.New("s", "{\n  @k: 1\n}")
	v.Assert(ks.AddType("@k", jschema.New("@k", kt)) == nil, "C13/doc-schema-rejected")
	k2 := []string{`a\/b`, `\u0061/b`, `a\u002fb`}[v.Choose(0, 2)]
	v.Observe("key2", k2)
	kr1 := ks.Validate(json.New("d", `{"a/b":1}`))
	kr2 := ks.Validate(json.New("d", `{"`+k2+`":1}`))
	v.Assert(kr1 == nil, "C13/doc-example-rejected")
	v.Assert((kr1 == nil) == (kr2 == nil), "C13/validation-verdict-changes-with-document-spelling")
	v.Reach("C13/pairs")
}

// ZZC13Str: a document string written with escape sequences gets the verdict of the plain spelling
// of the same value, under length rules with symbolic parameters, an enum and a constant.
func ZZC13Str() {
	var rules []byte
	switch v.Choose(0, 4) {
	case 0:
		rules = cat(bs("minLength: "), uintLit())
	case 1:
		rules = cat(bs("maxLength: "), uintLit())
	case 2:
		rules = cat(bs("minLength: "), uintLit(), bs(", maxLength: "), uintLit())
	case 3:
		rules = bs(`enum: ["a/b", "ab", "a\"", "/"]`)
	default:
		rules = bs("const: true")
	}
	schema := cat(bs(`"a/b" // {`), rules, bs("}"))
	v.Observe("schema", schema)
	s := jschema.New("s", schema)
	v.Assume(s.Check() == nil)
	n := v.Choose(1, v.Param("pieces", 3))
	lit, plain := []byte{'"'}, []byte{'"'}
	for i := 0; i < n; i++ {
		var dec []byte
		lit, dec = strPiece(lit, nil, v.Choose(0, 5))
		switch c := dec[0]; {
		case c == '"' || c == '\\':
			plain = append(plain, '\\', c)
		case c == '\n':
			plain = append(plain, '\\', 'n')
		default:
			plain = append(plain, c)
		}
	}
	lit, plain = append(lit, '"'), append(plain, '"')
	v.Observe("plain", plain)
	v.Observe("escaped", lit)
	r1 := s.Validate(json.New("d", plain))
	r2 := s.Validate(json.New("d", lit))
	if r1 == nil {
		v.Reach("C13/str-accepted")
	} else {
		v.Reach("C13/str-rejected")
	}
	v.Assert((r1 == nil) == (r2 == nil), "C13/validation-verdict-changes-with-document-spelling")
}

func init() {
	ZZHarnesses["ZZC13Str"] = ZZC13Str
	ZZHarnesses["ZZC13Pairs"] = ZZC13Pairs
	ZZHarnesses["ZZC13Schema"] = ZZC13Schema
	ZZHarnesses["ZZC13Doc"] = ZZC13Doc
}
