//go:build verif

package zzverif

import (
	jlib "github.com/jsightapi/jsight-schema-go-library"
	"github.com/jsightapi/jsight-schema-go-library/formats/json"
	"github.com/jsightapi/jsight-schema-go-library/notations/jschema"
	"github.com/jsightapi/jsight-schema-go-library/zzverif/gen"
	"github.com/jsightapi/jsight-schema-go-library/zzverif/v"
)

// c04Leaf builds a scalar example with 0..2 rules and tells whether the
// example value obeys them (reference predicates over the symbolic bytes).
func c04Leaf(rich bool) (e *gen.Ex, obeys bool) {
	obeys = true
	hi := 3
	if !rich {
		hi = 1
	}
	shi := hi
	if rich {
		shi = 4
	}
	if v.Choose(0, 1) == 0 {
		lit := gen.NumLit(v.Choose(0, 1))
		e = &gen.Ex{Kind: gen.KInt, Lit: lit}
		val := gen.ParseNum(lit)
		switch v.Choose(0, hi) {
		case 1:
			p := gen.NumLit(0)
			e.Rules = append(e.Rules, gen.Rule{Name: "min", Value: p})
			obeys = gen.CmpNum(val, gen.ParseNum(p)) >= 0
		case 2:
			p := gen.NumLit(v.Choose(0, 1))
			e.Rules = append(e.Rules, gen.Rule{Name: "max", Value: p})
			obeys = gen.CmpNum(val, gen.ParseNum(p)) <= 0
		case 3:
			p := gen.NumLit(0)
			e.Rules = append(e.Rules, gen.Rule{Name: "min", Value: p}, gen.Rule{Name: "exclusiveMinimum", Value: bs("true")})
			obeys = gen.CmpNum(val, gen.ParseNum(p)) > 0
		}
		return
	}
	lit, dec := docString(2, 1)
	e = &gen.Ex{Kind: gen.KStr, Lit: lit}
	switch v.Choose(0, shi) {
	case 4:
		// members of other kinds whose text a string example can spell
		e.Rules = append(e.Rules, gen.Rule{Name: "enum", Value: bs(`[7, "bc", null]`)})
		obeys = len(dec) == 2 && dec[0] == 'b' && dec[1] == 'c'
	case 1:
		p := uintLit()
		e.Rules = append(e.Rules, gen.Rule{Name: "minLength", Value: p})
		obeys = len(dec) >= int(p[0]-'0')
	case 2:
		p := uintLit()
		e.Rules = append(e.Rules, gen.Rule{Name: "maxLength", Value: p})
		obeys = len(dec) <= int(p[0]-'0')
	case 3:
		e.Rules = append(e.Rules, gen.Rule{Name: "enum", Value: bs(`["a", "bc"]`)})
		obeys = (len(dec) == 1 && dec[0] == 'a') || (len(dec) == 2 && dec[0] == 'b' && dec[1] == 'c')
	}
	return
}

// ZZC04: Check accepts => Validate(example) accepts; an example value that
// violates its own rule => Check fails at the position of that value.
func ZZC04() {
	var root *gen.Ex
	var bad []*gen.Ex // nodes whose example violates a rule
	note := func(e *gen.Ex, ok bool) {
		if !ok {
			bad = append(bad, e)
		}
	}
	switch v.Choose(0, 2) {
	case 0:
		e, ok := c04Leaf(true)
		root = e
		note(e, ok)
	case 1:
		root = &gen.Ex{Kind: gen.KObj}
		n := v.Choose(1, 2)
		for i := 0; i < n; i++ {
			e, ok := c04Leaf(i == 0 || v.Param("rich2", 0) != 0)
			root.Keys = append(root.Keys, []byte{byte('a' + i)})
			root.Kids = append(root.Kids, e)
			note(e, ok)
		}
	case 2:
		root = &gen.Ex{Kind: gen.KArr}
		n := v.Choose(1, 2)
		for i := 0; i < n; i++ {
			e, ok := c04Leaf(i == 0 || v.Param("rich2", 0) != 0)
			root.Kids = append(root.Kids, e)
			note(e, ok)
		}
		switch v.Choose(0, 2) {
		case 1:
			p := uintLit()
			root.Rules = append(root.Rules, gen.Rule{Name: "minItems", Value: p})
			note(root, n >= int(p[0]-'0'))
		case 2:
			p := uintLit()
			root.Rules = append(root.Rules, gen.Rule{Name: "maxItems", Value: p})
			note(root, n <= int(p[0]-'0'))
		}
	}
	st := gen.Schema(root)
	ex := gen.JSON(gen.ExampleDoc(root))
	v.Observe("schema", st)
	v.Observe("example", ex)
	s := jschema.New("s", st)
	cerr := c04Check(s)
	if cerr == nil {
		v.Reach("C04/check-accepts")
		v.Assert(len(bad) == 0, "C04/check-accepts-example-violating-its-rule")
		verr := s.Validate(json.New("d", ex))
		v.Assert(verr == nil, "C04/accepted-schema-rejects-its-own-example")
		return
	}
	v.Reach("C04/check-rejects")
	if len(bad) == 1 {
		v.Reach("C04/single-violation")
		pe, ok := cerr.(jlib.ParsingError)
		v.Assert(ok, "C04/error-without-position")
		if ok {
			v.Assert(int(pe.Position()) == bad[0].Off, "C04/error-position-is-not-the-offending-value")
		}
	}
}

// ZZC04Items: item-count rules on arrays of 1..3 plain items, at the root or nested in an
// object, combined with nullable / optional; symbolic 1-digit parameters.
func ZZC04Items() {
	n := v.Choose(1, 3)
	arr := &gen.Ex{Kind: gen.KArr}
	for i := 0; i < n; i++ {
		arr.Kids = append(arr.Kids, &gen.Ex{Kind: gen.KInt, Lit: bs("7")})
	}
	obeys := true
	which := v.Choose(0, 2)
	if which != 1 {
		p := uintLit()
		arr.Rules = append(arr.Rules, gen.Rule{Name: "minItems", Value: p})
		obeys = obeys && n >= int(p[0]-'0')
	}
	if which != 0 {
		p := uintLit()
		arr.Rules = append(arr.Rules, gen.Rule{Name: "maxItems", Value: p})
		obeys = obeys && n <= int(p[0]-'0')
	}
	switch v.Choose(0, 2) {
	case 1:
		arr.Nullable = 1
	case 2:
		arr.Nullable = 2
	}
	root := arr
	if v.Choose(0, 1) == 1 {
		if v.Choose(0, 1) == 1 {
			arr.Optional = 1
		}
		root = &gen.Ex{Kind: gen.KObj, Keys: [][]byte{bs("k"), bs("z")}, Kids: []*gen.Ex{arr, {Kind: gen.KStr, Lit: bs(`"s"`)}}}
	}
	st := gen.Schema(root)
	ex := gen.JSON(gen.ExampleDoc(root))
	v.Observe("schema", st)
	s := jschema.New("s", st)
	cerr := c04Check(s)
	if cerr == nil {
		v.Reach("C04/items-accepted")
		v.Assert(obeys, "C04/check-accepts-example-violating-its-rule")
		v.Assert(s.Validate(json.New("d", ex)) == nil, "C04/accepted-schema-rejects-its-own-example")
		return
	}
	// min > max is rejected for another reason; only judge the case where the bounds are ordered
	if !obeys {
		v.Reach("C04/items-rejected")
		pe, ok := cerr.(jlib.ParsingError)
		v.Assert(ok, "C04/error-without-position")
		if ok && len(arr.Rules) == 1 {
			v.Assert(int(pe.Position()) == arr.Off, "C04/error-position-is-not-the-offending-value")
		}
	}
}

// ZZC04Nest: a leaf with rules below 1..2 containers that carry no rules themselves (an array
// without annotation, an object with one required or one optional property).
func ZZC04Nest() {
	leaf, ok := c04Leaf(true)
	root := leaf
	depth := v.Choose(1, v.Param("depth", 2))
	for i := 0; i < depth; i++ {
		switch v.Choose(0, 2) {
		case 0:
			root = &gen.Ex{Kind: gen.KArr, Kids: []*gen.Ex{root}}
		case 1:
			root = &gen.Ex{Kind: gen.KObj, Keys: [][]byte{bs("k")}, Kids: []*gen.Ex{root}}
		default:
			if root.Kind != gen.KArr && root.Kind != gen.KObj || len(root.Rules) > 0 {
				root.Optional = 1
			} else {
				// an annotation on a multi-line container needs its own rendering; keep the plain form
				v.Assume(false)
			}
			root = &gen.Ex{Kind: gen.KObj, Keys: [][]byte{bs("k")}, Kids: []*gen.Ex{root}}
		}
	}
	st := gen.Schema(root)
	ex := gen.JSON(gen.ExampleDoc(root))
	v.Observe("schema", st)
	v.Observe("example", ex)
	s := jschema.New("s", st)
	cerr := c04Check(s)
	if cerr == nil {
		v.Reach("C04/nest-accepts")
		v.Assert(ok, "C04/check-accepts-example-violating-its-rule")
		v.Assert(s.Validate(json.New("d", ex)) == nil, "C04/accepted-schema-rejects-its-own-example")
		return
	}
	v.Reach("C04/nest-rejects")
	v.Assert(!ok, "C04/check-rejects-valid-schema")
	if !ok {
		pe, isPE := cerr.(jlib.ParsingError)
		v.Assert(isPE, "C04/error-without-position")
		if isPE {
			v.Assert(int(pe.Position()) == leaf.Off, "C04/error-position-is-not-the-offending-value")
		}
	}
}

// ZZC04Kinds: two empty containers, each with an or rule over built-in types; Check accepts iff
// every example is of a kind its own list admits (whatever the neighbours admit).
func ZZC04Kinds() {
	names := []string{"object", "array", "string", "integer"}
	node := func() (string, bool) {
		kind := v.Choose(0, 1) // 0 {}, 1 []
		a, b := v.Choose(0, 3), v.Choose(0, 3)
		v.Assume(a != b)
		t := []string{"{}", "[]"}[kind] + " // {or: [{type: \"" + names[a] + "\"}, {type: \"" + names[b] + "\"}]}"
		return t, a == kind || b == kind
	}
	t1, ok1 := node()
	t2, ok2 := node()
	// the comma goes before the annotation
	st := "{\n  \"a\": " + t1[:2] + "," + t1[2:] + "\n  \"b\": " + t2 + "\n}"
	v.Observe("schema", st)
	s := jschema.New("s", st)
	cerr := c04Check(s)
	if ok1 && ok2 {
		v.Reach("C04/kinds-admitted")
		v.Assert(cerr == nil, "C04/check-rejects-valid-schema")
		if cerr == nil {
			ex, eerr := s.Example()
			v.Assert(eerr == nil, "C15/example-error-on-accepted-schema")
			if eerr == nil {
				v.Assert(s.Validate(json.New("d", ex)) == nil, "C04/accepted-schema-rejects-its-own-example")
			}
		}
		return
	}
	v.Reach("C04/kinds-excluded")
	v.Assert(cerr != nil, "C04/check-accepts-example-violating-its-rule")
}

// ZZC04Or: a literal example under an or / type rule over user types: Check accepts iff the example
// is admitted by one of the named types (an object type never admits a literal), and reports the
// example's position otherwise.
func ZZC04Or() {
	// example: an integer of one or two digits, or a string of 0..3 plain bytes
	var ex []byte
	isInt := v.Choose(0, 1) == 0
	val, slen := 0, 0
	if isInt {
		d := v.Byte()
		v.Assume('1' <= d && d <= '9')
		ex = []byte{d}
		val = int(d - '0')
		if v.Choose(0, 1) == 1 {
			d2 := v.Byte()
			v.Assume('0' <= d2 && d2 <= '9')
			ex = append(ex, d2)
			val = val*10 + int(d2-'0')
		}
	} else {
		slen = v.Choose(0, 3)
		ex = []byte{'"'}
		for i := 0; i < slen; i++ {
			c := v.Byte()
			v.Assume(c >= 0x20 && c < 0x7f && c != '"' && c != '\\')
			ex = append(ex, c)
		}
		ex = append(ex, '"')
	}
	types := []struct {
		name, text string
		admits     func() bool
	}{
		{"@obj", `{"a": 1}`, func() bool { return false }},
		{"@big", `10 // {min: 10}`, func() bool { return isInt && val >= 10 }},
		{"@small", `1 // {max: 5}`, func() bool { return isInt && val <= 5 }},
		{"@str", `"ab" // {minLength: 2}`, func() bool { return !isInt && slen >= 2 }},
		{"@arr", `[1]`, func() bool { return false }},
	}
	a := v.Choose(0, len(types)-1)
	b := v.Choose(0, len(types)-1)
	var rule string
	ok := false
	if v.Choose(0, 1) == 0 {
		v.Assume(a != b)
		rule = `{or: ["` + types[a].name + `", "` + types[b].name + `"]}`
		ok = types[a].admits() || types[b].admits()
	} else {
		rule = `{type: "` + types[a].name + `"}`
		ok = types[a].admits()
	}
	asProp := v.Choose(0, 1) == 1
	off := 0
	text := cat(ex, bs(" // "), bs(rule))
	if asProp {
		pre := "{\n  \"k\": "
		off = len(pre)
		text = cat(bs(pre), text, bs("\n}"))
	}
	v.Observe("schema", text)
	s := jschema.New("s", text)
	for _, t := range types {
		v.Assert(s.AddType(t.name, jschema.New(t.name, t.text)) == nil, "C04/addtype-failed")
	}
	cerr := c04Check(s)
	if ok {
		v.Reach("C04/or-admitted")
		v.Assert(cerr == nil, "C04/check-rejects-valid-schema")
		if cerr == nil {
			doc := ex
			if asProp {
				doc = cat(bs(`{"k":`), ex, bs(`}`))
			}
			v.Assert(s.Validate(json.New("d", doc)) == nil, "C04/accepted-schema-rejects-its-own-example")
		}
		return
	}
	v.Reach("C04/or-excluded")
	v.Assert(cerr != nil, "C04/check-accepts-example-violating-its-rule")
	if cerr != nil {
		pe, isPE := cerr.(jlib.ParsingError)
		v.Assert(isPE, "C04/error-without-position")
		if isPE {
			v.Assert(int(pe.Position()) == off, "C04/error-position-is-not-the-offending-value")
		}
	}
}

// ZZC04Esc: a string example written with escape sequences under length rules: the bounds count
// the decoded bytes of the example, as they do for documents.
func ZZC04Esc() {
	lit, dec := docString(v.Param("pieces", 2), v.Param("piecekinds", 6))
	hasMin := v.Choose(0, 1) == 1
	p := uintLit()
	rule := "maxLength"
	ok := len(dec) <= int(p[0]-'0')
	if hasMin {
		rule = "minLength"
		ok = len(dec) >= int(p[0]-'0')
	}
	text := cat(lit, bs(" // {"), bs(rule), bs(": "), p, bs("}"))
	v.Observe("schema", text)
	s := jschema.New("s", text)
	cerr := c04Check(s)
	if ok {
		v.Reach("C04/esc-obeys")
		v.Assert(cerr == nil, "C04/check-rejects-valid-schema")
		if cerr == nil {
			v.Assert(s.Validate(json.New("d", lit)) == nil, "C04/accepted-schema-rejects-its-own-example")
		}
		return
	}
	v.Reach("C04/esc-violates")
	v.Assert(cerr != nil, "C04/check-accepts-example-violating-its-rule")
}

func init() {
	ZZHarnesses["ZZC04Esc"] = ZZC04Esc
	ZZHarnesses["ZZC04Or"] = ZZC04Or
	ZZHarnesses["ZZC04Nest"] = ZZC04Nest
	ZZHarnesses["ZZC04Kinds"] = ZZC04Kinds
	ZZHarnesses["ZZC04"] = ZZC04
	ZZHarnesses["ZZC04Items"] = ZZC04Items
}

// c04Check: Check's verdict is that of the schema, also when it is asked a second time.
func c04Check(s *jschema.Schema) error {
	cerr := s.Check()
	again := s.Check()
	v.Assert((cerr == nil) == (again == nil), "C04/second-check-differs")
	return cerr
}
