//go:build verif

package zzverif

import (
	"github.com/jsightapi/jsight-schema-go-library/formats/json"
	"github.com/jsightapi/jsight-schema-go-library/notations/jschema"
	"github.com/jsightapi/jsight-schema-go-library/zzverif/v"
)

// Semantics of a position as the set of document classes it admits.
type c03Sem struct {
	intAny, int10 bool // every integer / integers >= 10
	strMin        int  // strings of at least strMin bytes; -1: no strings
	null          bool
	objP, objQ    bool // {"p": integer} / {} or {"q": string}
}

func c03None() c03Sem { return c03Sem{strMin: -1} }

func (a c03Sem) or(b c03Sem) c03Sem {
	r := c03Sem{intAny: a.intAny || b.intAny, int10: a.int10 || b.int10, null: a.null || b.null,
		objP: a.objP || b.objP, objQ: a.objQ || b.objQ, strMin: a.strMin}
	if a.strMin < 0 || (b.strMin >= 0 && b.strMin < a.strMin) {
		r.strMin = b.strMin
	}
	return r
}

var c03bTypes = [][2]string{
	{"@i", `12 // {min: 10}`}, {"@s", `"xy" // {minLength: 2}`}, {"@o", `{"p": 1}`},
	{"@o2", "{\n  \"q\": \"s\" // {optional: true}\n}"},
	{"@SN", `@s | @i`}, {"@NO", `@i | @o`}, {"@ON", `@o2 | @SN`},
}

func c03bNameSem(i int) (string, c03Sem) {
	s := c03None()
	switch i {
	case 0:
		s.int10 = true
		return "@i", s
	case 1:
		s.strMin = 2
		return "@s", s
	case 2:
		s.objP = true
		return "@o", s
	case 3:
		s.objQ = true
		return "@o2", s
	case 4:
		s.int10, s.strMin = true, 2
		return "@SN", s
	case 5:
		s.int10, s.objP = true, true
		return "@NO", s
	}
	s.objQ, s.int10, s.strMin = true, true, 2
	return "@ON", s
}

// c03bItem: one member of an or list.
func c03bItem() (string, c03Sem) {
	k := v.Choose(0, 9)
	switch k {
	case 0, 1, 2, 3:
		n, s := c03bNameSem([]int{0, 1, 5, 4}[k])
		return `"` + n + `"`, s
	case 4:
		n, s := c03bNameSem(0)
		return `{type: "` + n + `"}`, s
	case 5:
		n, s := c03bNameSem(0)
		s.null = true
		return `{type: "` + n + `", nullable: true}`, s
	case 6:
		n, s := c03bNameSem(4)
		s.null = true
		return `{type: "` + n + `", nullable: true}`, s
	case 7:
		s := c03None()
		s.intAny = true
		return `{type: "integer"}`, s
	case 8:
		s := c03None()
		s.strMin = 2
		return `{type: "string", minLength: 2}`, s
	}
	s := c03None()
	s.strMin = 0
	return `"string"`, s
}

// c03bDoc: a document of one of the classes, with symbolic contents.
func c03bDoc() (text []byte, accepted func(c03Sem) bool) {
	dig := func(lo byte) byte {
		c := v.Byte()
		v.Assume(lo <= c && c <= '9')
		return c
	}
	switch v.Choose(0, 7) {
	case 0:
		return bs("null"), func(s c03Sem) bool { return s.null }
	case 1:
		return []byte{dig('0')}, func(s c03Sem) bool { return s.intAny }
	case 2:
		return []byte{dig('1'), dig('0')}, func(s c03Sem) bool { return s.intAny || s.int10 }
	case 3:
		n := v.Choose(0, 3)
		t := []byte{'"'}
		for i := 0; i < n; i++ {
			c := v.Byte()
			v.Assume(c >= 0x20 && c < 0x7f && c != '"' && c != '\\')
			t = append(t, c)
		}
		return append(t, '"'), func(s c03Sem) bool { return s.strMin >= 0 && n >= s.strMin }
	case 4:
		return cat(bs(`{"p":`), []byte{dig('0')}, bs(`}`)), func(s c03Sem) bool { return s.objP }
	case 5:
		return bs(`{}`), func(s c03Sem) bool { return s.objQ }
	case 6:
		return bs(`{"q":"w"}`), func(s c03Sem) bool { return s.objQ }
	}
	return bs("true"), func(s c03Sem) bool { return false }
}

// ZZC03Or: a position written as a shortcut list of (possibly aliased) types, as an or rule with
// inline rule-sets, or as a type rule - each optionally nullable, at the root or under a key -
// accepts exactly the union of what its members accept (plus null where nullable).
func ZZC03Or() {
	sem := c03None()
	var pos string
	switch v.Choose(0, 2) {
	case 0: // @A | @B | ...
		n := v.Choose(1, v.Param("members", 2))
		for i := 0; i < n; i++ {
			nm, s := c03bNameSem(v.Choose(0, 6))
			if i > 0 {
				pos += " | "
			}
			pos += nm
			sem = sem.or(s)
		}
		if v.Choose(0, 1) == 1 {
			pos += " // {nullable: true}"
			sem.null = true
		}
	case 1: // EX // {or: [...]}
		n := v.Choose(2, v.Param("members", 2))
		items := ""
		for i := 0; i < n; i++ {
			it, s := c03bItem()
			if i > 0 {
				items += ", "
			}
			items += it
			sem = sem.or(s)
		}
		pos = []string{`12`, `"xy"`}[v.Choose(0, 1)] + " // {or: [" + items + "]"
		if v.Choose(0, 1) == 1 {
			pos += ", nullable: true"
			sem.null = true
		}
		pos += "}"
	default: // EX // {type: "@X"}
		i := v.Choose(0, 6)
		nm, s := c03bNameSem(i)
		sem = s
		pos = []string{`12`, `"xy"`}[v.Choose(0, 1)] + ` // {type: "` + nm + `"`
		if v.Choose(0, 1) == 1 {
			pos += ", nullable: true"
			sem.null = true
		}
		pos += "}"
	}
	// placement: the root, under a key, or first in an array of two with an item-count rule
	// (what follows the position has to be validated once, whichever members admitted the value)
	place := v.Choose(0, 2)
	under := place == 1
	root := pos
	if under {
		root = "{\n  \"v\": " + pos + "\n}"
	}
	if place == 2 {
		// the comma goes before the annotation
		item := pos
		if i := indexOf(pos, " // "); i >= 0 {
			item = pos[:i] + "," + pos[i:]
		} else {
			item = pos + ","
		}
		root = "[ // {maxItems: 2}\n  " + item + "\n  \"s\"\n]"
	}
	v.Observe("schema", root)
	s := jschema.New("s", root)
	for _, t := range c03bTypes {
		v.Assert(s.AddType(t[0], jschema.New(t[0], t[1])) == nil, "C03/addtype-failed")
	}
	// the example has to fit one member, several spellings are refused by Check for other reasons: quantify over the accepted ones
	v.Assume(s.Check() == nil)
	doc, accepted := c03bDoc()
	if under {
		doc = cat(bs(`{"v":`), doc, bs(`}`))
	}
	if place == 2 {
		doc = cat(bs(`[`), doc, bs(`,"x"]`))
	}
	v.Observe("doc", doc)
	verr := s.Validate(json.New("d", doc))
	if accepted(sem) {
		v.Reach("C03/or-accept")
		v.Assert(verr == nil, "C03/member-of-the-union-rejected")
	} else {
		v.Reach("C03/or-reject")
		v.Assert(verr != nil, "C03/non-member-accepted")
	}
}

func indexOf(s, sub string) int {
	for i := 0; i+len(sub) <= len(s); i++ {
		if s[i:i+len(sub)] == sub {
			return i
		}
	}
	return -1
}

func init() { ZZHarnesses["ZZC03Or"] = ZZC03Or }

// ZZC03KeyAlt: a key shortcut whose type is an or shortcut of string types: a document key is
// admitted iff one of the alternatives admits it - the first or a later one - and each key is
// judged on its own.
func ZZC03KeyAlt() {
	// the union written in both orders, with a member named twice (directly and through another
	// name for it), and as two overlapping unions
	order := v.Choose(0, 5)
	body := []string{"@ka | @kb", "@kb | @ka", "@ka | @kb | @kalias", "@kalias | @kb | @ka", "@u1 | @u2", "@u2 | @u1"}[order]
	s := jschema.New("s", "{\n  @kk: 1\n}")
	v.Assert(s.AddType("@kk", jschema.New("@kk", body)) == nil, "C03/addtype-failed")
	v.Assert(s.AddType("@kalias", jschema.New("@kalias", "@ka")) == nil, "C03/addtype-failed")
	v.Assert(s.AddType("@u1", jschema.New("@u1", "@ka | @kb")) == nil, "C03/addtype-failed")
	v.Assert(s.AddType("@u2", jschema.New("@u2", "@kb | @ka")) == nil, "C03/addtype-failed")
	v.Assert(s.AddType("@ka", jschema.New("@ka", `"a1" // {regex: "^a"}`)) == nil, "C03/addtype-failed")
	v.Assert(s.AddType("@kb", jschema.New("@kb", `"b1" // {regex: "^b"}`)) == nil, "C03/addtype-failed")
	v.Assert(s.Check() == nil, "C03/case-rejected-by-check")
	n := v.Choose(1, 2)
	doc := bs("{")
	ok := true
	for i := 0; i < n; i++ {
		// concrete first letters: the key types are regex rules, and RE2 matching of symbolic text is
		// an uninterpreted predicate in the engine
		c := []byte("abcd")[v.Choose(0, 3)]
		if i > 0 {
			doc = append(doc, ',')
		}
		doc = cat(doc, bs(`"`), []byte{c, byte('1' + i)}, bs(`":`), []byte{byte('5' + i)})
		if c != 'a' && c != 'b' {
			ok = false
		}
	}
	doc = append(doc, '}')
	v.Observe("keytype", body)
	v.Observe("doc", doc)
	verr := s.Validate(json.New("d", doc))
	if ok {
		v.Reach("C03/keyalt-accept")
		v.Assert(verr == nil, "C03/member-of-the-union-rejected")
	} else {
		v.Reach("C03/keyalt-reject")
		v.Assert(verr != nil, "C03/non-member-accepted")
	}
}

func init() { ZZHarnesses["ZZC03KeyAlt"] = ZZC03KeyAlt }
