//go:build verif

package zzverif

import (
	stdErrors "errors"

	"github.com/jsightapi/jsight-schema-go-library/errors"
	"github.com/jsightapi/jsight-schema-go-library/formats/json"
	"github.com/jsightapi/jsight-schema-go-library/fs"
	"github.com/jsightapi/jsight-schema-go-library/kit"
	"github.com/jsightapi/jsight-schema-go-library/notations/jschema"
	"github.com/jsightapi/jsight-schema-go-library/zzverif/v"
)

// ZZC07Types: errors raised inside user types - inherited through allOf, inside generated or
// types, behind key shortcuts and self-referring or shortcuts - are structured, name a file
// whose text contains their position, and can be rendered. The offending example digit and the
// padding in front of it are symbolic, so the position moves and the example is valid or not.
func ZZC07Types() {
	d := v.Byte()
	v.Assume('0' <= d && d <= '9')
	pad := ""
	for i, n := 0, v.Choose(0, 3); i < n; i++ {
		pad += " "
	}
	bad := pad + string([]byte{d}) + " // {min: 5}"
	long := "{\n  \"long_key_name_to_move_the_offset\": 1,\n  \"x\": " + bad + "\n}"
	type tcase struct {
		root  string
		types [][2]string
	}
	cases := []tcase{
		{`@a`, [][2]string{{"@a", `{} // {allOf: "@b"}`}, {"@b", long}}},
		{"{ // {allOf: \"@b\"}\n}", [][2]string{{"@b", long}}},
		{`@a`, [][2]string{{"@a", "{\n  \"p\": @b | @c\n}"}, {"@b", long}}}, // @c missing
		{`@a`, [][2]string{{"@a", "{\n  \"id\": 1,\n  \"name\": \"123\",\n  \"profile\": @p1 | @p2\n}"}}},
		{`@a`, [][2]string{{"@a", "{\n  \"v\": " + bad + ",\n  \"w\": 2 // {or: [{type: \"integer\", min: 9}, {type: \"string\"}]}\n}"}}},
		{"{\n  @k: 1\n}", [][2]string{{"@k", `@k | @s`}, {"@s", `"abc"`}}},
		{"{\n  @k: " + bad + "\n}", [][2]string{{"@k", `@s | @k`}, {"@s", `"abc" // {minLength: 1}`}}},
		{`@a`, [][2]string{{"@a", "{ // {additionalProperties: \"@b\"}\n  \"k\": 1\n}"}, {"@b", bad}}},
		{"[\n  @a\n]", [][2]string{{"@a", "[\n  " + bad + "\n]"}}},
		{`@a`, [][2]string{{"@a", `@a | @b`}, {"@b", bad}}},
		{`@a`, [][2]string{{"@a", `@c | @b`}, {"@c", `@a | @b`}, {"@b", `"abc"`}}},
	}
	c := cases[v.Choose(0, len(cases)-1)]
	v.Observe("root", c.root)
	const doc = `{"x":7,"long_key_name_to_move_the_offset":1}`
	files := map[string]int{"root": len(c.root), "doc": len(doc)}
	s := jschema.New("root", c.root)
	for _, t := range c.types {
		files[t[0]] = len(t[1])
		guard("types.AddType", func() { c07err(s.AddType(t[0], jschema.New(t[0], t[1])), len(t[1]), "types.AddType") })
	}
	judge := func(err error, what string) {
		if err == nil {
			return
		}
		v.Reach("C07/types-error")
		var de errors.DocumentError
		if stdErrors.As(err, &de) {
			n, known := files[de.Filename()]
			v.Observe("errfile", de.Filename())
			v.Assert(known, "C07/error-names-unknown-file/"+what)
			if known {
				lim := n
				if lim < 1 {
					lim = 1
				}
				v.Assert(int(de.Position()) < lim, "C17/error-position-outside-the-file-it-names/"+what)
			}
		}
		c07err(err, 1<<30, what)
		// the SDK conversion keeps a DocumentError's own file: file name and position stay consistent
		ke := kit.ConvertError(fs.NewFile("root", c.root), err)
		if ke != nil {
			if n, known := files[ke.Filename()]; known {
				lim := n
				if lim < 1 {
					lim = 1
				}
				v.Assert(int(ke.Position()) < lim, "C17/converted-error-position-outside-the-file-it-names/"+what)
			}
		}
	}
	guard("types.Check", func() { judge(s.Check(), "types.Check") })
	guard("types.Example", func() {
		_, err := s.Example()
		judge(err, "types.Example")
	})
	guard("types.Validate", func() { judge(s.Validate(json.New("doc", doc)), "types.Validate") })
	v.Reach("C07/types")
}

func init() { ZZHarnesses["ZZC07Types"] = ZZC07Types }

// ZZC17AllOfChain: an error raised while a type's allOf rule is processed is reported at the same
// place - file and offset - whether that type is the root's type or is reached through another
// type that inherits from it.
func ZZC17AllOfChain() {
	pad := ""
	for i, n := 0, v.Choose(0, 3); i < n; i++ {
		pad += " "
	}
	kind := v.Choose(0, 2)
	cBody := []string{"", `5`, `[1]`}[kind] // missing, not an object, not an object
	bText := pad + "{ // {allOf: \"@c\"}\n  \"x\": 1\n}"
	mk := func(root string) (string, int, int, bool) {
		s := jschema.New("root", root)
		_ = s.AddType("@a", jschema.New("@a", "{ // {allOf: \"@b\"}\n  \"own\": 2\n}"))
		_ = s.AddType("@b", jschema.New("@b", bText))
		if cBody != "" {
			_ = s.AddType("@c", jschema.New("@c", cBody))
		}
		err := s.Check()
		var de errors.DocumentError
		if err == nil || !stdErrors.As(err, &de) {
			return "", -1, -1, err == nil
		}
		return de.Filename(), int(de.Position()), de.ErrCode(), false
	}
	// the root refers to the type, or inherits from it itself (then the allOf rules are processed nested)
	direct, inherited := "@b", "@a"
	if v.Choose(0, 1) == 1 {
		direct, inherited = "{ // {allOf: \"@b\"}\n}", "{ // {allOf: \"@a\"}\n}"
	}
	f1, p1, c1, ok1 := mk(direct)
	f2, p2, c2, ok2 := mk(inherited)
	v.Observe("b", bText)
	v.Observe("direct", f1+":"+itoa(p1)+":"+itoa(c1))
	v.Observe("inherited", f2+":"+itoa(p2)+":"+itoa(c2))
	v.Assert(!ok1 && !ok2, "C17/allof-error-not-raised")
	v.Assert(c1 == c2, "C17/allof-error-code-depends-on-the-referring-type")
	v.Assert(f1 == f2 && p1 == p2, "C17/allof-error-position-depends-on-the-referring-type")
	// it belongs to the object that carries the faulty rule, in @b's own text
	v.Assert(f1 == "@b" && p1 == len(pad), "C17/allof-error-position")
	v.Reach("C17/allof-chain")
}

func init() { ZZHarnesses["ZZC17AllOfChain"] = ZZC17AllOfChain }
