//go:build verif

package zzverif

import (
	stdErrors "errors"

	"github.com/jsightapi/jsight-schema-go-library/errors"
	"github.com/jsightapi/jsight-schema-go-library/formats/json"
	"github.com/jsightapi/jsight-schema-go-library/fs"
	"github.com/jsightapi/jsight-schema-go-library/kit"
	"github.com/jsightapi/jsight-schema-go-library/notations/jschema"
	"github.com/jsightapi/jsight-schema-go-library/zzverif/v"
)

// ZZC07Types: errors raised inside user types - inherited through allOf, inside generated or
// types, behind key shortcuts and self-referring or shortcuts - are structured, name a file
// whose text contains their position, and can be rendered. The offending example digit and the
// padding in front of it are symbolic, so the position moves and the example is valid or not.
func ZZC07Types() {
	d := v.Byte()
	v.Assume('0' <= d && d <= '9')
	pad := ""
	for i, n := 0, v.Choose(0, 3); i < n; i++ {
		pad += " "
	}
	bad := pad + string([]byte{d}) + " // {min: 5}"
	long := "{\n  \"long_key_name_to_move_the_offset\": 1,\n  \"x\": " + bad + "\n}"
	type tcase struct {
		root  string
		types [][2]string
	}
	cases := []tcase{
		{`@a`, [][2]string{{"@a", `{} // {allOf: "@b"}`}, {"@b", long}}},
		{"{ // {allOf: \"@b\"}\n}", [][2]string{{"@b", long}}},
		{`@a`, [][2]string{{"@a", "{\n  \"p\": @b | @c\n}"}, {"@b", long}}}, // @c missing
		{`@a`, [][2]string{{"@a", "{\n  \"id\": 1,\n  \"name\": \"123\",\n  \"profile\": @p1 | @p2\n}"}}},
		{`@a`, [][2]string{{"@a", "{\n  \"v\": " + bad + ",\n  \"w\": 2 // {or: [{type: \"integer\", min: 9}, {type: \"string\"}]}\n}"}}},
		{"{\n  @k: 1\n}", [][2]string{{"@k", `@k | @s`}, {"@s", `"abc"`}}},
		{"{\n  @k: " + bad + "\n}", [][2]string{{"@k", `@s | @k`}, {"@s", `"abc" // {minLength: 1}`}}},
		{`@a`, [][2]string{{"@a", "{ // {additionalProperties: \"@b\"}\n  \"k\": 1\n}"}, {"@b", bad}}},
		{"[\n  @a\n]", [][2]string{{"@a", "[\n  " + bad + "\n]"}}},
		{`@a`, [][2]string{{"@a", `@a | @b`}, {"@b", bad}}},
		{`@a`, [][2]string{{"@a", `@c | @b`}, {"@c", `@a | @b`}, {"@b", `"abc"`}}},
	}
	c := cases[v.Choose(0, len(cases)-1)]
	v.Observe("root", c.root)
	const doc = `{"x":7,"long_key_name_to_move_the_offset":1}`
	files := map[string]int{"root": len(c.root), "doc": len(doc)}
	s := jschema.New("root", c.root)
	for _, t := range c.types {
		files[t[0]] = len(t[1])
		guard("types.AddType", func() { c07err(s.AddType(t[0], jschema.New(t[0], t[1])), len(t[1]), "types.AddType") })
	}
	judge := func(err error, what string) {
		if err == nil {
			return
		}
		v.Reach("C07/types-error")
		var de errors.DocumentError
		if stdErrors.As(err, &de) {
			n, known := files[de.Filename()]
			v.Observe("errfile", de.Filename())
			v.Assert(known, "C07/error-names-unknown-file/"+what)
			if known {
				lim := n
				if lim < 1 {
					lim = 1
				}
				v.Assert(int(de.Position()) < lim, "C17/error-position-outside-the-file-it-names/"+what)
			}
		}
		c07err(err, 1<<30, what)
		// the SDK conversion keeps a DocumentError's own file: file name and position stay consistent
		ke := kit.ConvertError(fs.NewFile("root", c.root), err)
		if ke != nil {
			if n, known := files[ke.Filename()]; known {
				lim := n
				if lim < 1 {
					lim = 1
				}
				v.Assert(int(ke.Position()) < lim, "C17/converted-error-position-outside-the-file-it-names/"+what)
			}
		}
	}
	guard("types.Check", func() { judge(s.Check(), "types.Check") })
	guard("types.Example", func() {
		_, err := s.Example()
		judge(err, "types.Example")
	})
	guard("types.Validate", func() { judge(s.Validate(json.New("doc", doc)), "types.Validate") })
	v.Reach("C07/types")
}

func init() { ZZHarnesses["ZZC07Types"] = ZZC07Types }
