//go:build verif

package zzverif

import (
	"regexp"

	"github.com/jsightapi/jsight-schema-go-library/formats/json"
	"github.com/jsightapi/jsight-schema-go-library/notations/jschema"
	"github.com/jsightapi/jsight-schema-go-library/zzverif/gen"
	"github.com/jsightapi/jsight-schema-go-library/zzverif/v"
)

func cat(parts ...[]byte) []byte {
	var out []byte
	for _, p := range parts {
		out = append(out, p...)
	}
	return out
}

func bs(s string) []byte { return []byte(s) }

// ZZC02MinMax: EX // {min: P, max: Q, exclusiveMinimum: b, exclusiveMaximum: b}
// with symbolic EX, P, Q and a symbolic document numeral. Quantifies over the
// rule sets Check accepts (assumption).
func ZZC02MinMax() {
	exForm := v.Choose(0, v.Param("exforms", 3))
	ex := gen.NumLit(exForm)
	hasMin := v.Choose(0, 1) == 1
	hasMax := v.Choose(0, 1) == 1
	var rules []byte
	var pmin, pmax []byte
	exclMin, exclMax := 0, 0 // 0 absent, 1 true, 2 false
	add := func(r []byte) {
		if len(rules) > 0 {
			rules = append(rules, ", "...)
		}
		rules = append(rules, r...)
	}
	if hasMin {
		pmin = gen.NumLit(v.Choose(0, v.Param("pforms", 3)))
		add(cat(bs("min: "), pmin))
		exclMin = v.Choose(0, 2)
		if exclMin == 1 {
			add(bs("exclusiveMinimum: true"))
		} else if exclMin == 2 {
			add(bs("exclusiveMinimum: false"))
		}
	}
	if hasMax {
		pmax = gen.NumLit(v.Choose(0, v.Param("pforms", 3)))
		add(cat(bs("max: "), pmax))
		exclMax = v.Choose(0, 2)
		if exclMax == 1 {
			add(bs("exclusiveMaximum: true"))
		} else if exclMax == 2 {
			add(bs("exclusiveMaximum: false"))
		}
	}
	docNull := v.Choose(0, 1) == 0
	nullable := 0
	if docNull {
		nullable = v.Choose(0, 2)
	}
	if nullable == 1 {
		add(bs("nullable: true"))
	} else if nullable == 2 {
		add(bs("nullable: false"))
	}
	schema := ex
	if len(rules) > 0 {
		schema = cat(ex, bs(" // {"), rules, bs("}"))
	}
	v.Observe("schema", schema)
	s := jschema.New("s", schema)
	v.Assume(s.Check() == nil)
	v.Reach("C02/minmax-schema-accepted")
	// the document
	var doc []byte
	docForm := 0
	if docNull {
		doc = bs("null")
	} else {
		docForm = v.Choose(0, v.Param("docforms", 5))
		doc = gen.NumLit(docForm)
		if !gen.IsIntForm(docForm) {
			// x.0 style values are the C10 classification finding; keep the last fraction digit non-zero
			v.Assume(doc[len(doc)-1] != '0')
		}
	}
	v.Observe("doc", doc)
	verr := s.Validate(json.New("d", doc))
	if docNull {
		want := nullable == 1
		v.Assert((verr == nil) == want, "C02/null-with-numeric-rules")
		return
	}
	val := gen.ParseNum(doc)
	want := true
	if gen.IsIntForm(exForm) && !gen.IsIntForm(docForm) {
		want = false // a float where the example is an integer
	}
	if hasMin {
		c := gen.CmpNum(val, gen.ParseNum(pmin))
		if exclMin == 1 {
			want = want && c > 0
		} else {
			want = want && c >= 0
		}
	}
	if hasMax {
		c := gen.CmpNum(val, gen.ParseNum(pmax))
		if exclMax == 1 {
			want = want && c < 0
		} else {
			want = want && c <= 0
		}
	}
	if want {
		v.Reach("C02/minmax-accept")
		v.Assert(verr == nil, "C02/minmax-admissible-value-rejected")
	} else {
		v.Reach("C02/minmax-reject")
		v.Assert(verr != nil, "C02/minmax-inadmissible-value-accepted")
	}
}

func init() {
	ZZHarnesses["ZZC02MinMax"] = ZZC02MinMax
}

// strPiece appends one string piece (source text) to src and its decoded
// bytes to dec. kind 0: plain symbolic ASCII byte; 1..5: escapes.
func strPiece(src, dec []byte, kind int) ([]byte, []byte) {
	switch kind {
	case 0:
		c := v.Byte()
		v.Assume(c >= 0x20 && c < 0x7f && c != '"' && c != '\\')
		return append(src, c), append(dec, c)
	case 1:
		return append(src, `\n`...), append(dec, '\n')
	case 2:
		return append(src, `\"`...), append(dec, '"')
	case 3:
		return append(src, `\\`...), append(dec, '\\')
	case 4:
		return append(src, `\/`...), append(dec, '/')
	case 6:
		// a lone surrogate escape decodes to U+FFFD; what follows it is kept
		return append(src, `\ud800`...), append(dec, 0xef, 0xbf, 0xbd)
	case 7:
		// a surrogate pair: U+1F600
		return append(src, `\ud83d\ude00`...), append(dec, 0xf0, 0x9f, 0x98, 0x80)
	}
	// \u00XY with symbolic hex digits X in 2..7 (printable ASCII)
	h1 := v.Byte()
	v.Assume('2' <= h1 && h1 <= '7')
	h2 := v.Byte()
	v.Assume(('0' <= h2 && h2 <= '9') || ('a' <= h2 && h2 <= 'f') || ('A' <= h2 && h2 <= 'F'))
	v.Assume(!(h1 == '7' && (h2 == 'f' || h2 == 'F')))
	var lo byte
	switch {
	case h2 <= '9':
		lo = h2 - '0'
	case h2 >= 'a':
		lo = h2 - 'a' + 10
	default:
		lo = h2 - 'A' + 10
	}
	src = append(src, '\\', 'u', '0', '0', h1, h2)
	return src, append(dec, (h1-'0')<<4|lo)
}

// docString builds a JSON string literal of up to max pieces and its decoded value.
func docString(max, nkinds int) (lit, dec []byte) {
	n := v.Choose(0, max)
	src := []byte{'"'}
	for i := 0; i < n; i++ {
		src, dec = strPiece(src, dec, v.Choose(0, nkinds-1))
	}
	return append(src, '"'), dec
}

func uintLit() []byte {
	d := v.Byte()
	v.Assume('0' <= d && d <= '9')
	return []byte{d}
}

// ZZC02Length: "EX" // {minLength: P, maxLength: Q}
func ZZC02Length() {
	ex, _ := docString(2, 1)
	hasMin := v.Choose(0, 1) == 1
	hasMax := v.Choose(0, 1) == 1
	var rules []byte
	var pmin, pmax []byte
	if hasMin {
		pmin = uintLit()
		rules = cat(bs("minLength: "), pmin)
	}
	if hasMax {
		pmax = uintLit()
		if len(rules) > 0 {
			rules = append(rules, ", "...)
		}
		rules = cat(rules, bs("maxLength: "), pmax)
	}
	// nullable: absent, true or false (false is inert)
	nullable := v.Choose(0, 2)
	if nullable != 0 {
		if len(rules) > 0 {
			rules = append(rules, ", "...)
		}
		rules = cat(rules, bs("nullable: "), bs([]string{"", "true", "false"}[nullable]))
	}
	schema := ex
	if len(rules) > 0 {
		schema = cat(ex, bs(" // {"), rules, bs("}"))
	}
	v.Observe("schema", schema)
	s := jschema.New("s", schema)
	v.Assume(s.Check() == nil)
	v.Reach("C02/length-schema-accepted")
	var doc, dec []byte
	switch v.Choose(0, 3) {
	case 0:
		doc, dec = docString(v.Param("pieces", 3), v.Param("piecekinds", 6))
	case 1:
		// the null value itself: admitted by nullable: true whatever the other rules say
		doc = bs("null")
		v.Observe("doc", doc)
		nerr := s.Validate(json.New("d", doc))
		if nullable == 1 {
			v.Reach("C02/null-admitted")
			v.Assert(nerr == nil, "C02/null-rejected-despite-nullable")
		} else {
			v.Assert(nerr != nil, "C02/null-accepted-without-nullable")
		}
		return
	case 2:
		// a string that merely spells null is a string like any other
		doc, dec = bs(`"null"`), bs("null")
	default:
		doc, dec = bs(`"nul"`), bs("nul")
	}
	v.Observe("doc", doc)
	verr := s.Validate(json.New("d", doc))
	want := true
	if hasMin {
		want = want && len(dec) >= int(pmin[0]-'0')
	}
	if hasMax {
		want = want && len(dec) <= int(pmax[0]-'0')
	}
	if want {
		v.Reach("C02/length-accept")
		v.Assert(verr == nil, "C02/length-admissible-string-rejected")
	} else {
		v.Reach("C02/length-reject")
		v.Assert(verr != nil, "C02/length-inadmissible-string-accepted")
	}
}

func scalarOfKind(k gen.Kind) []byte {
	switch k {
	case gen.KInt:
		return gen.NumLit(v.Choose(0, 1))
	case gen.KFloat:
		f := gen.NumLit(3)
		v.Assume(f[len(f)-1] != '0')
		return f
	case gen.KStr:
		l, _ := docString(2, 1)
		return l
	case gen.KBool:
		return gen.BoolLit()
	}
	return bs("null")
}

// ZZC02Const: EX // {const: true|false}
func ZZC02Const() {
	k := gen.Kind(v.Choose(int(gen.KNull), int(gen.KStr)))
	ex := scalarOfKind(k)
	apply := v.Choose(0, 1) == 1
	schema := cat(ex, bs(" // {const: false}"))
	if apply {
		schema = cat(ex, bs(" // {const: true}"))
	}
	v.Observe("schema", schema)
	s := jschema.New("s", schema)
	v.Assume(s.Check() == nil)
	doc := scalarOfKind(k)
	v.Observe("doc", doc)
	verr := s.Validate(json.New("d", doc))
	if apply {
		same := len(doc) == len(ex)
		if same {
			for i := range doc {
				if doc[i] != ex[i] {
					same = false
					break
				}
			}
		}
		if same {
			v.Reach("C02/const-equal")
		}
		v.Assert((verr == nil) == same, "C02/const-equality")
	} else {
		v.Assert(verr == nil, "C02/const-false-not-inert")
	}
}

// ZZC02Enum: EX // {enum: [v1, v2]} with type-sensitive membership.
func ZZC02Enum() {
	kinds := []gen.Kind{gen.KInt, gen.KStr, gen.KBool, gen.KNull, gen.KFloat}
	k1 := kinds[v.Choose(0, len(kinds)-1)]
	k2 := kinds[v.Choose(0, len(kinds)-1)]
	v1 := scalarOfKind(k1)
	v2 := scalarOfKind(k2)
	schema := cat(v1, bs(" // {enum: ["), v1, bs(", "), v2, bs("]}"))
	v.Observe("schema", schema)
	s := jschema.New("s", schema)
	v.Assume(s.Check() == nil) // drops duplicate values
	v.Reach("C02/enum-schema-accepted")
	kd := kinds[v.Choose(0, len(kinds)-1)]
	var doc, dec []byte
	if kd == gen.KStr {
		doc, dec = docString(2, v.Param("piecekinds", 6))
	} else {
		doc = scalarOfKind(kd)
	}
	v.Observe("doc", doc)
	verr := s.Validate(json.New("d", doc))
	match := func(k gen.Kind, lit []byte) bool {
		if k != kd {
			return false
		}
		if k == gen.KStr {
			body := lit[1 : len(lit)-1] // enum literals here have plain bodies
			if len(body) != len(dec) {
				return false
			}
			for i := range body {
				if body[i] != dec[i] {
					return false
				}
			}
			return true
		}
		if len(lit) != len(doc) {
			return false
		}
		for i := range lit {
			if lit[i] != doc[i] {
				return false
			}
		}
		return true
	}
	want := match(k1, v1) || match(k2, v2)
	if want {
		v.Reach("C02/enum-member")
		v.Assert(verr == nil, "C02/enum-member-rejected")
	} else {
		v.Reach("C02/enum-non-member")
		v.Assert(verr != nil, "C02/enum-non-member-accepted")
	}
}

// ZZC02Precision: D.D // {precision: P}
func ZZC02Precision() {
	ex := gen.NumLit(3)
	v.Assume(ex[2] != '0')
	p := uintLit()
	schema := cat(ex, bs(" // {precision: "), p, bs("}"))
	v.Observe("schema", schema)
	s := jschema.New("s", schema)
	v.Assume(s.Check() == nil)
	v.Reach("C02/precision-schema-accepted")
	form := v.Choose(0, 6)
	doc := gen.NumLit(form)
	v.Observe("doc", doc)
	verr := s.Validate(json.New("d", doc))
	n := gen.ParseNum(doc)
	if !gen.IsIntForm(form) && n.FraLen() == 0 {
		// x.0 written with a point: classification is the C10 finding; not judged here
		v.Assume(false)
	}
	want := n.FraLen() <= int(p[0]-'0')
	if want {
		v.Reach("C02/precision-accept")
		v.Assert(verr == nil, "C02/precision-admissible-rejected")
	} else {
		v.Reach("C02/precision-reject")
		v.Assert(verr != nil, "C02/precision-inadmissible-accepted")
	}
}

func init() {
	ZZHarnesses["ZZC02Length"] = ZZC02Length
	ZZHarnesses["ZZC02Const"] = ZZC02Const
	ZZHarnesses["ZZC02Enum"] = ZZC02Enum
	ZZHarnesses["ZZC02Precision"] = ZZC02Precision
}

// ZZC02Format: date / datetime / uri / regex. The semantics of the formats is
// the standard library's (an uninterpreted predicate for symbolic subjects);
// what is checked is that the *decoded* document string reaches the right
// predicate and that the verdict follows it.
func ZZC02Format() {
	which := v.Choose(0, 3)
	var schema string
	var tmpl string // document body template: '?' = symbolic plain byte, '!' = escaped \u00XY
	switch which {
	case 0:
		schema = `"2021-01-02" // {type: "date"}`
		tmpl = "20?1-0?-1?"
	case 1:
		schema = `"2021-01-02T15:04:05+07:00" // {type: "datetime"}`
		tmpl = "2021-0?-02T15:0?:05?07:00"
	case 2:
		schema = `"http://a.b/c" // {type: "uri"}`
		tmpl = "http??/a.b/?"
	case 3:
		schema = `"abc" // {regex: "^a.c$"}`
		tmpl = "a??"
	}
	s := jschema.New("s", schema)
	v.Assert(s.Check() == nil, "C02/format-schema-rejected")
	esc := v.Choose(0, 1) == 1
	src := []byte{'"'}
	var dec []byte
	for i := 0; i < len(tmpl); i++ {
		if tmpl[i] != '?' {
			src = append(src, tmpl[i])
			dec = append(dec, tmpl[i])
			continue
		}
		if esc && i == len(tmpl)-1 {
			src, dec = strPiece(src, dec, 5)
		} else {
			src, dec = strPiece(src, dec, 0)
		}
	}
	src = append(src, '"')
	v.Observe("doc", src)
	verr := s.Validate(json.New("d", src))
	var want bool
	switch which {
	case 0:
		_, e := timeParse("2006-01-02", string(dec))
		want = e == nil
	case 1:
		_, e := timeParse(timeRFC3339, string(dec))
		want = e == nil
	case 2:
		u, e := urlParse(string(dec))
		want = e == nil && u.IsAbs() && u.Hostname() != ""
	case 3:
		want = reMatch("^a.c$", dec)
	}
	if want {
		v.Reach("C02/format-accept")
	} else {
		v.Reach("C02/format-reject")
	}
	v.Assert((verr == nil) == want, "C02/format-verdict")
}

// ZZC02URI: concrete URIs around the rule "absolute, with a host name" (the engine calls net/url
// natively for concrete strings, so library and oracle really parse them); one symbolic byte
// replaces a plain path byte to keep a solver-decided part.
func ZZC02URI() {
	uris := []string{"http://a.b/c", "http://:8080/a", "https://:443/index.html", "http://:/a", "http://a.b:80/c", "http:///a", "/a",
		"mailto:a@b.c", "http://a", "//a/b", "http://[::1]:80/", "http://[::1]/x", "ftp://h/p", "http://", "h ttp://a/b", "http://a b/"}
	u := uris[v.Choose(0, len(uris)-1)]
	doc := cat(bs(`"`), bs(u), bs(`"`))
	v.Observe("doc", doc)
	s := jschema.New("s", `"http://a.b/c" // {type: "uri"}`)
	v.Assert(s.Check() == nil, "C02/format-schema-rejected")
	verr := s.Validate(json.New("d", doc))
	pu, e := urlParse(u)
	want := e == nil && pu.IsAbs() && pu.Hostname() != ""
	if want {
		v.Reach("C02/uri-accept")
	} else {
		v.Reach("C02/uri-reject")
	}
	v.Assert((verr == nil) == want, "C02/format-verdict")
}

func init() {
	ZZHarnesses["ZZC02Format"] = ZZC02Format
	ZZHarnesses["ZZC02URI"] = ZZC02URI
}

func c02Hex(c byte) bool {
	return ('0' <= c && c <= '9') || ('a' <= c && c <= 'f') || ('A' <= c && c <= 'F')
}

// c02RefUUID: the four accepted spellings of a UUID (reference grammar).
func c02RefUUID(b []byte) bool {
	switch len(b) {
	case 36:
	case 45:
		pre := "urn:uuid:"
		for i := 0; i < 9; i++ {
			c := b[i]
			if 'A' <= c && c <= 'Z' {
				c += 'a' - 'A'
			}
			if c != pre[i] {
				return false
			}
		}
		b = b[9:]
	case 38:
		if b[0] != '{' || b[37] != '}' {
			return false
		}
		b = b[1:37]
	case 32:
		for _, c := range b {
			if !c02Hex(c) {
				return false
			}
		}
		return true
	default:
		return false
	}
	for i := 0; i < 36; i++ {
		if i == 8 || i == 13 || i == 18 || i == 23 {
			if b[i] != '-' {
				return false
			}
		} else if !c02Hex(b[i]) {
			return false
		}
	}
	return true
}

// ZZC02UUID: "..." // {type: "uuid"} against documents in each of the four
// spellings with two symbolic bytes at chosen positions (hex digit, dash, prefix, brace).
func ZZC02UUID() {
	base := "550e8400-e29b-41d4-a716-44665544000f"
	s := jschema.New("s", `"`+base+`" // {type: "uuid"}`)
	v.Assert(s.Check() == nil, "C02/uuid-schema-rejected")
	var text []byte
	var cand []int
	switch v.Choose(0, 3) {
	case 0:
		text = bs(base)
		cand = []int{0, 7, 8, 9, 13, 23, 24, 35}
	case 1:
		text = bs("urn:uuid:" + base)
		cand = []int{0, 3, 8, 9, 17, 44}
	case 2:
		text = bs("{" + base + "}")
		cand = []int{0, 1, 9, 36, 37}
	case 3:
		for i := 0; i < len(base); i++ {
			if base[i] != '-' {
				text = append(text, base[i])
			}
		}
		cand = []int{0, 1, 16, 31}
	}
	p1 := cand[v.Choose(0, len(cand)-1)]
	c := v.Byte()
	v.Assume(c >= 0x20 && c < 0x7f && c != '"' && c != '\\')
	text[p1] = c
	if v.Choose(0, 1) == 1 {
		p2 := cand[v.Choose(0, len(cand)-1)]
		c2 := v.Byte()
		v.Assume(c2 >= 0x20 && c2 < 0x7f && c2 != '"' && c2 != '\\')
		text[p2] = c2
	}
	doc := cat(bs(`"`), text, bs(`"`))
	v.Observe("doc", doc)
	verr := s.Validate(json.New("d", doc))
	want := c02RefUUID(text)
	if want {
		v.Reach("C02/uuid-accept")
	} else {
		v.Reach("C02/uuid-reject")
	}
	v.Assert((verr == nil) == want, "C02/uuid-verdict")
}

func init() { ZZHarnesses["ZZC02UUID"] = ZZC02UUID }

// c02RegexCases: schema example, the pattern as written in the schema (a JSON string body) and as RE2 reads it.
var c02RegexCases = [][3]string{
	{`"a/b"`, `^a/b$`, `^a/b$`},
	{`"ABC"`, `^[A-Z]+$`, `^[A-Z]+$`},
	{`"a b"`, `^a\\sb$`, `^a\sb$`},
	{`"abcdef"`, `^.{6}$`, `^.{6}$`},
	{`"xu0041"`, `u0041`, `u0041`},
	{`"ab"`, `^..$`, `^..$`},
	{`"bab"`, `a`, `a`},
	{`"a\\b"`, `^a\\\\`, `^a\\`},
}

// c02RegexPieces: a piece of a document string as written and as decoded.
var c02RegexPieces = [][2]string{
	{`a`, `a`}, {`\u0061`, `a`}, {`/`, `/`}, {`\/`, `/`}, {`b`, `b`}, {`\t`, "\t"}, {` `, ` `},
	{`A`, `A`}, {`\u0041`, `A`}, {`\\`, `\`}, {`B`, `B`}, {`u0041`, `u0041`}, {`BC`, `BC`},
	{`\ud800`, "\ufffd"}, {`\ud83d\ude00`, "\U0001f600"}, {`bcdefg`, `bcdefg`},
}

// ZZC02Regex: the regex rule is an RE2 search in the decoded document string: strings written with
// escape sequences (chosen piece by piece) against anchored, unanchored and class patterns; the
// expected verdict is the standard library's on the decoded bytes.
func ZZC02Regex() {
	rc := c02RegexCases[v.Choose(0, len(c02RegexCases)-1)]
	schema := rc[0] + ` // {regex: "` + rc[1] + `"}`
	v.Observe("schema", schema)
	s := jschema.New("s", schema)
	v.Assert(s.Check() == nil, "C02/regex-schema-rejected")
	n := v.Choose(1, v.Param("pieces", 2))
	lit, dec := `"`, ""
	for i := 0; i < n; i++ {
		p := c02RegexPieces[v.Choose(0, len(c02RegexPieces)-1)]
		lit += p[0]
		dec += p[1]
	}
	lit += `"`
	v.Observe("doc", lit)
	want := regexp.MustCompile(rc[2]).MatchString(dec)
	verr := s.Validate(json.New("d", lit))
	if want {
		v.Reach("C02/regex-accept")
		v.Assert(verr == nil, "C02/regex-matching-string-rejected")
	} else {
		v.Reach("C02/regex-reject")
		v.Assert(verr != nil, "C02/regex-non-matching-string-accepted")
	}
}

// ZZC02Exp: numerals with an exponent (either letter case, any sign, with and without a fraction)
// against an integer and a float example with min/max: a numeral whose value is integral is an
// integer however it is written, and the bounds apply to the value.
func ZZC02Exp() {
	exInt := v.Choose(0, 1) == 0
	schema := `20.5 // {min: 10, max: 30}`
	if exInt {
		schema = `20 // {min: 10, max: 30}`
	}
	v.Observe("schema", schema)
	s := jschema.New("s", schema)
	v.Assert(s.Check() == nil, "C02/exp-schema-rejected")
	dg := func() byte {
		c := v.Byte()
		v.Assume('0' <= c && c <= '9')
		return c
	}
	d1 := dg()
	doc := []byte{d1}
	m := int(d1-'0') * 10 // the mantissa in tenths
	if v.Choose(0, 1) == 1 {
		d2 := dg()
		doc = append(doc, '.', d2)
		m += int(d2 - '0')
		if v.Choose(0, 1) == 1 {
			doc = append(doc, '0')
		}
	}
	marker := v.Byte()
	v.Assume(marker == 'e' || marker == 'E')
	doc = append(doc, marker)
	sign := v.Choose(0, 2)
	if sign == 1 {
		doc = append(doc, '+')
	} else if sign == 2 {
		doc = append(doc, '-')
	}
	e := v.Choose(0, 2)
	doc = append(doc, byte('0'+e))
	if sign == 2 {
		e = -e
	}
	v.Observe("doc", doc)
	// value * 1000 = m * 10^(e+2)
	scaled := m * []int{1, 10, 100, 1000, 10000}[e+2]
	integral := scaled%1000 == 0
	inRange := scaled >= 10000 && scaled <= 30000
	want := inRange && (integral || !exInt)
	verr := s.Validate(json.New("d", doc))
	if want {
		v.Reach("C02/exp-accept")
		v.Assert(verr == nil, "C02/exp-admissible-value-rejected")
	} else {
		v.Reach("C02/exp-reject")
		v.Assert(verr != nil, "C02/exp-inadmissible-value-accepted")
	}
}

func init() {
	ZZHarnesses["ZZC02Regex"] = ZZC02Regex
	ZZHarnesses["ZZC02Exp"] = ZZC02Exp
}
