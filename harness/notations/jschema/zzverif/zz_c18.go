//go:build verif

package zzverif

import (
	"github.com/jsightapi/jsight-schema-go-library/formats/json"
	"github.com/jsightapi/jsight-schema-go-library/notations/jschema"
	"github.com/jsightapi/jsight-schema-go-library/notations/regex"
	"github.com/jsightapi/jsight-schema-go-library/rules/enum"
	"github.com/jsightapi/jsight-schema-go-library/zzverif/gen"
	"github.com/jsightapi/jsight-schema-go-library/zzverif/v"
)

// c18Comment: a comment inside an enum rule with a symbolic body.
func c18Comment(kind, max int) []byte {
	n := v.Choose(0, max)
	body := []byte{}
	for i := 0; i < n; i++ {
		c := v.Byte()
		v.Assume(c != '\n' && c != '\r')
		if kind != 1 && i > 0 {
			// a block comment ends at the first "*/": its body may hold stars and slashes, not that pair
			v.Assume(!(body[i-1] == '*' && c == '/'))
		}
		body = append(body, c)
	}
	if kind == 1 {
		return cat(bs(" //"), body, bs("\n"))
	}
	if n > 0 {
		// "/*/" would not be a complete comment: keep a blank after the opening when the body starts with '/'
		return cat(bs(" /* "), body, bs("*/"))
	}
	return cat(bs(" /*"), body, bs("*/"))
}

// c18Lit: enum items also include negative integers and numerals with a fraction (possibly all zeros).
func c18Lit(k gen.Kind) []byte {
	switch k {
	case gen.KInt:
		d := v.Byte()
		v.Assume('1' <= d && d <= '9')
		if v.Choose(0, 1) == 1 {
			return []byte{'-', d}
		}
		return []byte{d}
	case gen.KFloat:
		d, f := v.Byte(), v.Byte()
		v.Assume('0' <= d && d <= '9' && '0' <= f && f <= '9')
		return []byte{d, '.', f}
	}
	return smallLit(k)
}

// ZZC18Enum: {enum: @E} + rule behaves like the inline list; Values/GetAST in source order.
func ZZC18Enum() {
	kinds := []gen.Kind{gen.KInt, gen.KStr, gen.KBool, gen.KNull, gen.KFloat}
	n := v.Choose(1, v.Param("values", 2))
	var lits [][]byte
	var decs [][]byte // decoded value for strings, literal text otherwise
	var ks []gen.Kind
	for i := 0; i < n; i++ {
		k := kinds[v.Choose(0, len(kinds)-1)]
		ks = append(ks, k)
		if k == gen.KStr && i == 0 {
			l, d := docString(1, v.Param("piecekinds", 6)) // a string value that may be written with an escape
			lits = append(lits, l)
			decs = append(decs, d)
		} else {
			l := c18Lit(k)
			lits = append(lits, l)
			if k == gen.KStr {
				decs = append(decs, l[1:len(l)-1])
			} else {
				decs = append(decs, l)
			}
		}
	}
	// rule text with layout and comments
	layout := v.Choose(0, 3) // 0 compact, 1 one per line, 2 with // comments, 3 with /* */ comments
	rule := bs("[")
	inline := bs("[")
	for i, l := range lits {
		if i > 0 {
			rule = append(rule, ',')
			inline = append(inline, ", "...)
		}
		switch layout {
		case 1:
			rule = append(rule, "\n  "...)
		case 2:
			rule = append(rule, "\n  "...)
		case 3:
			rule = append(rule, ' ')
		}
		rule = append(rule, l...)
		inline = append(inline, l...)
		if layout == 2 && i == n-1 {
			rule = cat(rule, c18Comment(1, 1))
		}
		if layout == 3 {
			// the first block comment has a body of up to commentlen bytes (stars and slashes included), the others are empty or one byte
			if i == 0 {
				rule = cat(rule, c18Comment(2, v.Param("commentlen", 1)))
			} else {
				rule = cat(rule, c18Comment(2, 1))
			}
		}
	}
	if layout == 1 {
		rule = append(rule, '\n')
	}
	rule = append(rule, ']')
	inline = append(inline, ']')
	v.Observe("rule", rule)
	er := enum.New("@E", rule)
	rerr := er.Check()
	// duplicates (same kind and same text) must be rejected by Check
	dup := false
	for i := range lits {
		for j := 0; j < i; j++ {
			if ks[i] == ks[j] && eqBytes(decs[i], decs[j]) {
				dup = true
			}
		}
	}
	if dup {
		v.Reach("C18/duplicate")
		v.Assert(rerr != nil, "C18/duplicate-enum-value-accepted")
		return
	}
	v.Assert(rerr == nil, "C18/enum-rule-rejected")
	if rerr != nil {
		return
	}
	vals, verr := er.Values()
	v.Assert(verr == nil && len(vals) == n, "C18/values-count")
	if verr == nil && len(vals) == n {
		for i := range vals {
			v.Assert(eqBytes(vals[i].Value, lits[i]), "C18/values-order-or-text")
		}
	}
	ast, aerr := er.GetAST()
	v.Assert(aerr == nil && len(ast.Children) == n, "C18/ast-children")
	if aerr == nil && len(ast.Children) == n {
		for i := range ast.Children {
			v.Assert(strEq(ast.Children[i].Value, lits[i]), "C18/ast-order-or-text")
		}
	}
	// schema with the named rule vs schema with the inline list
	ex := lits[0]
	s1 := jschema.New("s1", cat(ex, bs(" // {enum: @E}")))
	v.Assert(s1.AddRule("@E", er) == nil, "C18/addrule-failed")
	s2 := jschema.New("s2", cat(ex, bs(" // {enum: "), inline, bs("}")))
	c1, c2 := s1.Check(), s2.Check()
	v.Assert((c1 == nil) == (c2 == nil), "C18/check-differs-from-inline-enum")
	if c1 != nil || c2 != nil {
		return
	}
	v.Reach("C18/enum")
	kd := kinds[v.Choose(0, len(kinds)-1)]
	var doc []byte
	if kd == gen.KStr {
		doc, _ = docString(1, v.Param("piecekinds", 6))
	} else {
		doc = smallLit(kd)
	}
	v.Observe("doc", doc)
	r1 := s1.Validate(json.New("d", doc))
	r2 := s2.Validate(json.New("d", doc))
	v.Assert((r1 == nil) == (r2 == nil), "C18/named-enum-validates-differently-from-inline")
}

// ZZC18Regex: the slash-scanning of a regex type: pattern = bytes up to the
// first unescaped '/', Len = len(pattern)+2, error when there is none.
func ZZC18Regex() {
	n := v.Choose(0, v.Param("maxlen", 4))
	body := v.Bytes(n)
	content := cat(bs("/"), body)
	v.Observe("content", content)
	// reference scan
	end := -1
	esc := false
	for i, c := range body {
		if c == '\\' {
			esc = !esc
			continue
		}
		if c == '/' && !esc {
			end = i
			break
		}
		esc = false
	}
	r := regex.New("@r", content)
	pat, perr := r.Pattern()
	if end <= 0 {
		// no terminating slash, or an empty pattern
		v.Reach("C18/regex-unterminated")
		if end < 0 {
			v.Assert(perr != nil, "C18/unterminated-regex-accepted")
		}
		return
	}
	want := body[:end]
	// the pattern must also be a valid RE2 expression; that part is the standard library's
	if perr != nil {
		return
	}
	v.Reach("C18/regex")
	v.Assert(strEq(pat, want), "C18/regex-pattern")
	l, lerr := r.Len()
	v.Assert(lerr == nil && int(l) == len(want)+2, "C18/regex-len")
}

// ZZC18RegexType: /P/ added as @T accepts what inline {regex: P} accepts (concrete patterns).
func ZZC18RegexType() {
	pats := []string{`^a.c$`, `[0-9]+`, `^(ab|cd)$`, `x\/y`, `^\d{2}-\d$`, `A`,
		// patterns whose generated example holds a double quote or a backslash
		`^say "hi"$`, `^C:\\dir$`, `^a\\b$`, `^"$`, `^\\$`, `q"+`, `^[\\"]{2}$`}
	p := pats[v.Choose(0, len(pats)-1)]
	v.Observe("pattern", p)
	rt := regex.New("@t", "/"+p+"/", regex.WithGeneratorSeed(1))
	v.Assert(rt.Check() == nil, "C18/regex-type-rejected")
	l, _ := rt.Len()
	v.Assert(int(l) == len(p)+2, "C18/regex-len")
	ex, eerr := rt.Example()
	v.Assert(eerr == nil, "C18/regex-example-error")
	s1 := jschema.New("s1", "@t")
	aerr := s1.AddType("@t", rt)
	v.Assert(aerr == nil, "C18/regex-addtype-failed")
	if aerr != nil || eerr != nil {
		return
	}
	pat, _ := rt.Pattern()
	v.Assert(reMatch(pat, ex), "C18/regex-example-does-not-match")
	quoted, _ := jsonMarshal(pat)
	exq, _ := jsonMarshal(string(ex))
	s2 := jschema.New("s2", cat(exq, bs(" // {regex: "), quoted, bs("}")))
	c1, c2 := s1.Check(), s2.Check()
	v.Assert(c1 == nil && c2 == nil, "C18/regex-schemas-rejected")
	if c1 != nil || c2 != nil {
		return
	}
	v.Reach("C18/regex-type")
	doc, _ := docString(v.Param("docpieces", 3), v.Param("dockinds", 4))
	v.Observe("doc", doc)
	r1 := s1.Validate(json.New("d", doc))
	r2 := s2.Validate(json.New("d", doc))
	v.Assert((r1 == nil) == (r2 == nil), "C18/regex-type-validates-differently-from-inline")
}

func init() {
	ZZHarnesses["ZZC18Enum"] = ZZC18Enum
	ZZHarnesses["ZZC18Regex"] = ZZC18Regex
	ZZHarnesses["ZZC18RegexType"] = ZZC18RegexType
}
