//go:build verif

package zzverif

import (
	stdErrors "errors"

	jlib "github.com/jsightapi/jsight-schema-go-library"
	"github.com/jsightapi/jsight-schema-go-library/errors"
	"github.com/jsightapi/jsight-schema-go-library/formats/json"
	"github.com/jsightapi/jsight-schema-go-library/notations/jschema"
	"github.com/jsightapi/jsight-schema-go-library/zzverif/v"
)

// errSig: verdict, code and position of an error (texts are not compared).
func errSig(err error) (bool, int, int) {
	if err == nil {
		return true, 0, 0
	}
	var de errors.DocumentError
	if stdErrors.As(err, &de) {
		return false, de.ErrCode(), int(de.Position())
	}
	if cm, ok := err.(codeMsg); ok {
		return false, cm.ErrCode(), -1
	}
	return false, -1, -1
}

type c11Case struct {
	root  string
	types [][2]string
	docs  []string
}

var c11Cases = []c11Case{
	// two invalid added types: which error is reported must not depend on map order
	{`{"a": @x, "b": @y}`, [][2]string{{"@x", `1 // {min: 5}`}, {"@y", `"s" // {minLength: 3}`}}, []string{`{"a":1,"b":"s"}`}},
	// three types, two keys missing
	{"{\n  \"a\": @x,\n  \"b\": @y,\n  \"c\": @z\n}", [][2]string{{"@x", `1`}, {"@y", `"s"`}, {"@z", `true`}}, []string{`{"b":"t"}`, `{"a":2,"b":"t","c":false}`, `{"a":"q","b":1,"c":2}`}},
	// or of three types, document matching none / one / two
	{`@x | @y | @z`, [][2]string{{"@x", `{"p": 1}`}, {"@y", `{"p": 2, "q": 3} `}, {"@z", `[1]`}}, []string{`{"p":5}`, `{"p":5,"q":6}`, `{"r":1}`, `[2]`, `"s"`}},
	// two key shortcuts that both match a key
	{"{\n  @k1: 1,\n  @k2: \"s\"\n}", [][2]string{{"@k1", `"aa" // {minLength: 2}`}, {"@k2", `"bbb" // {minLength: 3}`}}, []string{`{"xyz":1,"uvw":"s"}`, `{"xyz":"s","uvw":1}`, `{"xy":1,"uvw":"s"}`}},
	// allOf with two parents
	{"{ // {allOf: [\"@x\", \"@y\"]}\n  \"own\": 1\n}", [][2]string{{"@x", `{"p": 1}`}, {"@y", `{"q": "s"}`}}, []string{`{"own":1,"p":2,"q":"t"}`, `{"own":1}`, `{"own":1,"p":"x","q":1}`}},
	// enum + several rules on one node
	{`5 // {min: 1, max: 9, type: "integer", nullable: true}`, nil, []string{`0`, `10`, `null`, `"s"`, `5`}},
	// an invalid property inherited through allOf from a parent that is registered under several names
	{`@a`, [][2]string{{"@a", "{ // {allOf: \"@z2\"}\n  \"own\": 1\n}"}, {"@z1", "{\n  \"long_key_to_move_the_offset\": 1,\n  \"x\": 5 // {min: 10}\n}"}, {"@z2", "=@z1"}, {"@z3", "=@z1"}}, []string{`{"own":1}`}},
}

func c11Build(c c11Case) *jschema.Schema {
	s := jschema.New("root", c.root)
	made := map[string]*jschema.Schema{}
	for _, t := range c.types {
		var ts *jschema.Schema
		if len(t[1]) > 0 && t[1][0] == '=' {
			ts = made[t[1][1:]] // the same schema object registered under a second name
		} else {
			ts = jschema.New(t[0], t[1])
		}
		made[t[0]] = ts
		if err := s.AddType(t[0], ts); err != nil {
			v.Fail("C11/addtype-failed")
		}
	}
	return s
}

type c11Obs struct {
	checkOK             bool
	checkCode, checkPos int
	checkWhere          string // file and user type the check error names
	valOK               bool
	valCode, valPos     int
	example             string
	exampleOK           bool
	used                string
	ast                 string
}

func c11Run(c c11Case, doc string) c11Obs {
	var o c11Obs
	s := c11Build(c)
	cerr := s.Check()
	o.checkOK, o.checkCode, o.checkPos = errSig(cerr)
	var cde errors.DocumentError
	if cerr != nil && stdErrors.As(cerr, &cde) {
		o.checkWhere = cde.Filename() + "|" + cde.IncorrectUserType()
	}
	o.valOK, o.valCode, o.valPos = errSig(s.Validate(json.New("d", doc)))
	ex, err := s.Example()
	o.exampleOK = err == nil
	o.example = string(ex)
	u, _ := s.UsedUserTypes()
	for _, n := range u {
		o.used += n + ","
	}
	if a, aerr := s.GetAST(); aerr == nil {
		js, _ := jsonMarshal(a)
		o.ast = string(js)
	}
	return o
}

func c11Same(a, b c11Obs, tag string) {
	v.Assert(a.checkOK == b.checkOK && a.checkCode == b.checkCode && a.checkPos == b.checkPos && a.checkWhere == b.checkWhere, "C11/check-result"+tag)
	v.Assert(a.valOK == b.valOK && a.valCode == b.valCode && a.valPos == b.valPos, "C11/validate-result"+tag)
	v.Assert(a.exampleOK == b.exampleOK && a.example == b.example, "C11/example"+tag)
	v.Assert(a.used == b.used, "C11/used-user-types"+tag)
	v.Assert(a.ast == b.ast, "C11/ast"+tag)
}

// ZZC11Order: the same operations on two fresh objects, the first under
// insertion order at every range-over-map, the second with a forced different
// order (all reversed, all rotated, or reversed/rotated at exactly one range
// site): results must be equal. Natively (replay) the run is repeated under
// Go's randomised order instead.
func ZZC11Order() {
	ci := v.Choose(0, len(c11Cases)-1)
	c := c11Cases[ci]
	doc := c.docs[v.Choose(0, len(c.docs)-1)]
	v.Observe("schema", c.root)
	v.Observe("doc", doc)
	v.MapOrder(0, 0)
	a := c11Run(c, doc)
	sites := v.MapSites()
	if !v.IsSymbolic() {
		for i := 0; i < 300; i++ {
			c11Same(a, c11Run(c, doc), "/map-order")
		}
		return
	}
	mode := v.Choose(1, 4)
	site := 0
	if mode >= 3 {
		site = v.Choose(0, sites-1)
	}
	v.Observe("mode", mode)
	v.Observe("site", site)
	v.MapOrder(mode, site)
	b := c11Run(c, doc)
	v.MapOrder(0, 0)
	c11Same(a, b, "/map-order")
	v.Reach("C11/order")
}

// ZZC11History: a sequence of operations on one schema object and one
// document object; afterwards every observable equals that of fresh objects,
// and values returned earlier have not changed.
func ZZC11History() {
	ci := v.Choose(0, len(c11Cases)-1)
	c := c11Cases[ci]
	d1 := c.docs[0]
	d2 := c.docs[len(c.docs)-1]
	s := c11Build(c)
	other := jschema.New("other", `{"zz": [1, 2, 3], "yy": "some longer text to fill the buffer"}`)
	var keptEx []byte
	var keptCopy string
	var keptErr error
	var keptErrText string
	n := v.Param("ops", 2)
	trace := ""
	for i := 0; i < n; i++ {
		switch v.Choose(0, 7) {
		case 0:
			s.Check()
			trace += "Check "
		case 1:
			err := s.Validate(json.New("d", d1))
			if err != nil && keptErr == nil {
				keptErr, keptErrText = err, err.Error()
			}
			trace += "Validate(d1) "
		case 2:
			s.Validate(json.New("d", d2))
			trace += "Validate(d2) "
		case 3:
			s.Len()
			trace += "Len "
		case 4:
			ex, err := s.Example()
			if err == nil && keptEx == nil {
				keptEx, keptCopy = ex, string(ex)
			}
			trace += "Example "
		case 5:
			s.GetAST()
			trace += "GetAST "
		case 6:
			s.UsedUserTypes()
			trace += "UsedUserTypes "
		case 7:
			other.Example()
			other.Validate(json.New("o", `{"zz":[1],"yy":"t"}`))
			trace += "other "
		}
	}
	v.Observe("schema", c.root)
	v.Observe("history", trace)
	// observables after the history vs fresh objects
	var o c11Obs
	hcerr := s.Check()
	o.checkOK, o.checkCode, o.checkPos = errSig(hcerr)
	var hde errors.DocumentError
	if hcerr != nil && stdErrors.As(hcerr, &hde) {
		o.checkWhere = hde.Filename() + "|" + hde.IncorrectUserType()
	}
	o.valOK, o.valCode, o.valPos = errSig(s.Validate(json.New("d", d1)))
	ex, err := s.Example()
	o.exampleOK = err == nil
	o.example = string(ex)
	u, _ := s.UsedUserTypes()
	for _, nm := range u {
		o.used += nm + ","
	}
	if a, aerr := s.GetAST(); aerr == nil {
		js, _ := jsonMarshal(a)
		o.ast = string(js)
	}
	c11Same(o, c11Run(c, d1), "/history")
	// stability of values handed out earlier
	if keptEx != nil {
		v.Reach("C11/kept-example")
		other.Example()
		v.Assert(string(keptEx) == keptCopy, "C11/returned-example-bytes-changed-later")
	}
	if keptErr != nil {
		v.Assert(keptErr.Error() == keptErrText, "C11/returned-error-changed-later")
	}
	v.Reach("C11/history")
}

// ZZC11Docs: Document objects: Check/Len/NextLexeme in any order give what fresh objects give.
func c11Any() *jschema.Schema { return jschema.New("any", `1 // {type: "any"}`) }

func ZZC11Docs() {
	texts := []string{`{"a":[1,2],"b":"x"}`, `[1,`, `  12  `, `"a"x`, `{"a": 1, "b": }`}
	t := texts[v.Choose(0, len(texts)-1)]
	trailing := v.Choose(0, 1) == 1
	mk := func() jlib.Document {
		if trailing {
			return json.New("d", t, json.AllowTrailingNonSpaceCharacters())
		}
		return json.New("d", t)
	}
	d := mk()
	n := v.Param("ops", 2)
	cursorMoved := false
	for i := 0; i < n; i++ {
		switch v.Choose(0, 4) {
		case 0:
			d.Check()
		case 1:
			d.Len()
		case 2:
			d.NextLexeme()
			cursorMoved = true
		case 3:
			// read to the end (or to the first error)
			for k := 0; k < 40; k++ {
				if _, err := d.NextLexeme(); err != nil {
					break
				}
			}
			cursorMoved = true
		case 4:
			// a validation reads the document through the same cursor
			_ = c11Any().Validate(d)
		}
	}
	// each question is put to the used object directly after the history (a question asked first
	// would rewind the cursor for the ones after it) and, by default, all of them in a row as well
	probe := v.Choose(0, 4) // 4: none of them, the lexeme stream only
	if probe == 0 || probe == 3 {
		// a validation starts from the beginning whatever was read before
		vo1, vc1, vp1 := errSig(c11Any().Validate(d))
		vo2, vc2, vp2 := errSig(c11Any().Validate(mk()))
		v.Assert(vo1 == vo2 && vc1 == vc2 && vp1 == vp2, "C11/document-validation-depends-on-history")
	}
	if probe == 1 || probe == 3 {
		ok1, c1, p1 := errSig(d.Check())
		ok2, c2, p2 := errSig(mk().Check())
		v.Assert(ok1 == ok2 && c1 == c2 && p1 == p2, "C11/document-check-depends-on-history")
	}
	if probe == 2 || probe == 3 {
		l1, e1 := d.Len()
		l2, e2 := mk().Len()
		v.Assert(l1 == l2 && (e1 == nil) == (e2 == nil), "C11/document-len-depends-on-history")
	}
	// Check and Len leave the cursor where it was: when the history did not read lexemes itself,
	// the stream read afterwards is that of a fresh document (NextLexeme is a cursor, so after
	// explicit reads the continuation is not comparable with a fresh object)
	g := mk()
	for i := 0; i < 6 && !cursorMoved; i++ {
		x1, err1 := d.NextLexeme()
		x2, err2 := g.NextLexeme()
		ok1, c1, p1 := errSig(err1)
		ok2, c2, p2 := errSig(err2)
		same := ok1 == ok2 && c1 == c2 && p1 == p2
		if err1 == nil && err2 == nil {
			same = same && x1.Type() == x2.Type() && x1.Begin() == x2.Begin() && x1.End() == x2.End()
		}
		v.Assert(same, "C11/lexeme-stream-after-check-depends-on-history")
		if err1 != nil || err2 != nil {
			break
		}
	}
	v.Observe("text", t)
}

func init() {
	ZZHarnesses["ZZC11Order"] = ZZC11Order
	ZZHarnesses["ZZC11History"] = ZZC11History
	ZZHarnesses["ZZC11Docs"] = ZZC11Docs
}
