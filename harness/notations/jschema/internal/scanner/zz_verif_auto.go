//go:build verif

package scanner

import (
	"github.com/jsightapi/jsight-schema-go-library/errors"
	"github.com/jsightapi/jsight-schema-go-library/fs"
	"github.com/jsightapi/jsight-schema-go-library/internal/lexeme"
	"github.com/jsightapi/jsight-schema-go-library/zzverif/v"
)

func zzItoa(n int) string {
	if n < 0 {
		return "-" + zzItoa(-n)
	}
	if n < 10 {
		return string(rune('0' + n))
	}
	return zzItoa(n/10) + string(rune('0'+n%10))
}

// zzKey names the control state of the schema scanner: every field the following
// transitions read, except positions. The byte just consumed is part of the state
// because closing a mixed value looks back at it.
func zzKey(s *Scanner) string {
	k := v.FuncName(s.step) + "/"
	for i := 0; i < s.returnToStep.Len(); i++ {
		k += v.FuncName(s.returnToStep.Get(i)) + ","
	}
	k += "/"
	for i := 0; i < s.stack.Len(); i++ {
		k += string(rune('a' + int(s.stack.Get(i).Type())))
	}
	k += "/"
	for i := 0; i < s.prevContextsStack.Len(); i++ {
		c := s.prevContextsStack.Get(i)
		k += zzItoa(int(c.Type))
		if c.ArrayHasItem {
			k += "i"
		}
	}
	k += "/" + zzItoa(int(s.context.Type))
	if s.context.ArrayHasItem {
		k += "i"
	}
	k += "/" + zzItoa(int(s.annotation))
	if s.unfinishedLiteral {
		k += "u"
	}
	if s.allowAnnotation {
		k += "a"
	}
	if s.hasTrailingCharacters {
		k += "t"
	}
	if s.index > 0 && int(s.index) <= len(s.data) && s.data[s.index-1] == ' ' {
		k += "s"
	}
	return k
}

// zzLexOK: a closing scalar lexeme must delimit bytes of the file, otherwise reading its value panics later.
func zzLexOK(lex lexeme.LexEvent, size int) bool {
	switch lex.Type() { //nolint:exhaustive
	case lexeme.LiteralEnd, lexeme.ObjectKeyEnd, lexeme.TypesShortcutEnd, lexeme.KeyShortcutEnd,
		lexeme.InlineAnnotationTextEnd, lexeme.MixedValueEnd:
		b, e := int(lex.Begin()), int(lex.End())
		return 0 <= b && b <= e+1 && e+1 <= size
	}
	return true
}

// zzDrive feeds bytes exactly as Next does, until the scanner has consumed more than upTo bytes.
// It returns -1 if no error was raised, else the error's index; raw reports a panic that is not a
// DocumentError.
func zzDrive(s *Scanner, upTo int) (idx int, raw bool, lexOK bool) {
	idx, lexOK = -1, true
	defer func() {
		if r := recover(); r != nil {
			if de, isDE := r.(errors.DocumentError); isDE {
				idx = int(de.Index())
			} else {
				raw = true
			}
		}
	}()
	for s.index < s.dataSize && int(s.index) < upTo {
		c := s.data[s.index]
		s.index++
		s.step(s, c)
		for len(s.finds) != 0 {
			lex := s.processingFoundLexeme(s.shiftFound())
			if !zzLexOK(lex, len(s.data)) {
				lexOK = false
			}
		}
	}
	return
}

// ZZScanAuto: one byte from an abstract state of the schema scanner. A concrete witness prefix
// reaches the state; then come one symbolic byte and up to two symbolic look-ahead bytes (the
// scanner peeks at most two bytes ahead). Whatever the byte, the scanner either moves on or
// raises a DocumentError that points at that byte; and if the text ended after the byte, the
// real Next loop finishes or raises a DocumentError at the last byte - never a raw panic.
func ZZScanAuto() {
	prefix := v.ParamBytes("prefix")
	length := v.Param("lengthmode", 0) != 0
	maxStack := v.Param("stack", 6)
	c := v.Byte()
	nla := v.Choose(0, 2)
	la := v.Bytes(nla)
	for _, b := range la {
		v.Assume(b < 0x80) // look-ahead bytes range over ASCII (keeps the message's rune decoding linear)
	}
	data := append(append(append([]byte{}, prefix...), c), la...)
	v.Observe("prefix", prefix)
	v.Observe("byte", c)
	v.Observe("lookahead", la)

	mk := func(b []byte) *Scanner {
		if length {
			return New(fs.NewFile("schema", b), ComputeLength)
		}
		return New(fs.NewFile("schema", b))
	}
	s := mk(data)
	idx, raw, lexOK := zzDrive(s, len(prefix))
	if idx >= 0 || raw {
		// The state was reached under a look-ahead that these following bytes do not satisfy; the
		// refusal itself was examined from the predecessor state.
		v.Reach("auto/lookahead-incompatible")
		return
	}
	v.Reach("auto/state-entered")
	start := int(s.index) // == len(prefix) unless the prefix ended with a skip
	idx, raw, lexOK = zzDrive(s, start+1)
	v.Assert(!raw, "C07/schema-scanner-raw-panic")
	if raw {
		return
	}
	v.Assert(lexOK, "C07/schema-lexeme-outside-file")
	if idx >= 0 {
		v.Reach("C07/auto-byte-refused")
		v.Assert(idx == start, "C17/schema-scan-error-position")
		return
	}
	v.Reach("C07/auto-byte-consumed")
	consumed := int(s.index)
	if consumed < start+1 {
		// the step function rewound the index (a line break ending a comment is read again)
		v.Reach("C07/auto-rewind")
	}

	// the text ends right after the byte: the real Next loop, end-of-input rule included
	if nla == 0 {
		zzEOF(mk(data), len(data))
	}

	if s.stack.Len() <= maxStack && consumed >= start+1 && consumed <= len(data) {
		v.Key(zzKey(s) + "@@" + zzItoa(consumed-start))
	}
}

func zzEOF(s2 *Scanner, size int) {
	func() {
		defer func() {
			if r := recover(); r != nil {
				de, isDE := r.(errors.DocumentError)
				v.Assert(isDE, "C07/schema-scanner-raw-panic")
				if isDE {
					v.Reach("C07/auto-eof-error")
					v.Assert(int(de.Index()) < size, "C17/schema-scan-error-outside-input")
				}
			}
		}()
		for {
			lex, ok := s2.Next()
			if !ok {
				break
			}
			if !zzLexOK(lex, size) {
				v.Fail("C07/schema-lexeme-outside-file")
			}
		}
		v.Reach("C07/auto-eof-clean")
	}()
}

var ZZHarnesses = map[string]func(){
	"ZZScanAuto": ZZScanAuto,
}
