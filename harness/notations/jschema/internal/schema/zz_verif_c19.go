//go:build verif

package schema

import (
	"strconv"
	"strings"

	jschema "github.com/jsightapi/jsight-schema-go-library"
	"github.com/jsightapi/jsight-schema-go-library/internal/json"
	"github.com/jsightapi/jsight-schema-go-library/notations/jschema/internal/schema/constraint"
	"github.com/jsightapi/jsight-schema-go-library/zzverif/om"
)

// zzC is a minimal constraint carrying a string value.
type zzC struct{ s string }

func (zzC) Type() constraint.Type                     { return constraint.MinConstraintType }
func (zzC) IsJsonTypeCompatible(json.Type) bool       { return true }
func (c zzC) String() string                          { return c.s }
func (zzC) ASTNode() jschema.RuleASTNode              { return jschema.RuleASTNode{} }
func (c zzC) MarshalJSON() ([]byte, error)            { return []byte(strconv.Quote(c.s)), nil }

func zzK(k string) constraint.Type { return constraint.Type(k[0]) }
func zzKS(k constraint.Type) string { return string([]byte{byte(k)}) }
func zzV(c constraint.Constraint) string {
	if c == nil {
		return ""
	}
	return c.String()
}

type zzCons struct{ m *Constraints }

// zzMk: the empty value stands for a nil constraint (an untyped nil interface value is a legal map value).
func zzMk(val string) constraint.Constraint {
	if val == "" {
		return nil
	}
	return zzC{val}
}

func (a zzCons) Set(k, val string) { a.m.Set(zzK(k), zzMk(val)) }
func (a zzCons) Update(k string, fn func(string) string) {
	a.m.Update(zzK(k), func(c constraint.Constraint) constraint.Constraint { return zzMk(fn(zzV(c))) })
}
func (a zzCons) GetValue(k string) string { return zzV(a.m.GetValue(zzK(k))) }
func (a zzCons) Get(k string) (string, bool) {
	c, ok := a.m.Get(zzK(k))
	return zzV(c), ok
}
func (a zzCons) Has(k string) bool { return a.m.Has(zzK(k)) }
func (a zzCons) Len() int          { return a.m.Len() }
func (a zzCons) Delete(k string)   { a.m.Delete(zzK(k)) }
func (a zzCons) Filter(fn func(k, val string) bool) {
	a.m.Filter(func(k constraint.Type, c constraint.Constraint) bool { return fn(zzKS(k), zzV(c)) })
}
func (a zzCons) Find(fn func(k, val string) bool) (string, string, bool) {
	it, ok := a.m.Find(func(k constraint.Type, c constraint.Constraint) bool { return fn(zzKS(k), zzV(c)) })
	if !ok {
		return "", "", false
	}
	return zzKS(it.Key), zzV(it.Value), ok
}
func (a zzCons) Each(fn func(k, val string) error) error {
	return a.m.Each(func(k constraint.Type, c constraint.Constraint) error { return fn(zzKS(k), zzV(c)) })
}
func (a zzCons) EachSafe(fn func(k, val string)) {
	a.m.EachSafe(func(k constraint.Type, c constraint.Constraint) { fn(zzKS(k), zzV(c)) })
}
func (a zzCons) Map(fn func(k, val string) (string, error)) error {
	return a.m.Map(func(k constraint.Type, c constraint.Constraint) (constraint.Constraint, error) {
		s, err := fn(zzKS(k), zzV(c))
		return zzC{s}, err
	})
}
func (a zzCons) JSON() (string, error) {
	b, err := a.m.MarshalJSON()
	return string(b), err
}
func (a zzCons) Inv() bool {
	if len(a.m.order) != len(a.m.data) {
		return false
	}
	for i, k := range a.m.order {
		if _, ok := a.m.data[k]; !ok {
			return false
		}
		for j := 0; j < i; j++ {
			if a.m.order[j] == k {
				return false
			}
		}
	}
	return true
}
func (a zzCons) WantJSON(keys, vals []string) string {
	var sb strings.Builder
	sb.WriteString("{")
	for i, k := range keys {
		if i > 0 {
			sb.WriteString(",")
		}
		sb.WriteString(strconv.Itoa(int(k[0])) + ":" + strconv.Quote(vals[i]))
	}
	sb.WriteString("}")
	return sb.String()
}

func ZZC19Constraints()     { om.One(zzCons{&Constraints{}}, false) }
func ZZC19ConstraintsJSON() { om.One(zzCons{&Constraints{}}, true) }

var ZZHarnesses = map[string]func(){
	"ZZC19Constraints":     ZZC19Constraints,
	"ZZC19ConstraintsJSON": ZZC19ConstraintsJSON,
}
