//go:build verif

package errors

import (
	"github.com/jsightapi/jsight-schema-go-library/bytes"
	"github.com/jsightapi/jsight-schema-go-library/fs"
	"github.com/jsightapi/jsight-schema-go-library/zzverif/v"
)

// zzConvention classifies a file: 0 = LF only, 1 = CR only, 2 = CRLF only,
// -1 = mixed (outside the property's quantifier). A file without any line
// break is an LF file.
func zzConvention(c []byte) int {
	hasLF, hasCR := false, false
	crlfOK := true
	for i := range c {
		if c[i] == '\n' {
			hasLF = true
			if i == 0 || c[i-1] != '\r' {
				crlfOK = false
			}
		}
		if c[i] == '\r' {
			hasCR = true
			if i+1 >= len(c) || c[i+1] != '\n' {
				crlfOK = false
			}
		}
	}
	switch {
	case !hasCR:
		return 0
	case !hasLF:
		return 1
	case crlfOK:
		return 2
	}
	return -1
}

// zzLineOf is the reference: the line (1-based number, start, end) that
// position idx belongs to; a position on a line terminator belongs to the
// line it ends.
func zzLineOf(c []byte, idx, conv int) (line, start, end int) {
	term := byte('\n')
	tlen := 1
	switch conv {
	case 1:
		term = '\r'
	case 2:
		term = '\r'
		tlen = 2
	}
	line = 1
	for i := 0; i < len(c); {
		if c[i] == term {
			if idx < i+tlen {
				return line, start, i
			}
			line++
			start = i + tlen
			i += tlen
			continue
		}
		i++
	}
	return line, start, len(c)
}

func zzLeadingBlanks(b []byte) int {
	n := 0
	for _, x := range b {
		if x != ' ' && x != '\t' {
			break
		}
		n++
	}
	return n
}

func zzEq(a []byte, s string) bool {
	if len(a) != len(s) {
		return false
	}
	for i := range a {
		if a[i] != s[i] {
			return false
		}
	}
	return true
}

func zzRenderChecks(content []byte, idx int) {
	conv := zzConvention(content)
	v.Assume(conv >= 0)
	f := fs.NewFile("f", content)
	e := NewDocumentError(f, Format(ErrGeneric, "m"))
	e.SetIndex(bytes.Index(idx))
	var line uint
	var src, ptr string
	panicked := true
	func() {
		defer func() { recover() }()
		line = e.Line()
		src = e.SourceSubString()
		ptr = e.pointerToTheErrorCharacter()
		_ = e.Error()
		panicked = false
	}()
	v.Assert(!panicked, "C17/render-panics")
	if panicked {
		return
	}
	wl, ws, we := zzLineOf(content, idx, conv)
	v.Assert(int(line) == wl, "C17/line-number")
	raw := content[ws:we]
	nb := zzLeadingBlanks(raw)
	if len(raw) <= 200 {
		v.Assert(zzEq(raw[nb:], src), "C17/line-text")
	} else {
		v.Reach("C17/truncated")
		v.Assert(len(src) <= 200 && len(src) >= 3 && src[len(src)-3:] == "...", "C17/truncation-shape")
		if len(src) >= 3 {
			body := src[:len(src)-3]
			v.Assert(len(body) <= len(raw)-nb && zzEq(raw[nb:nb+len(body)], body), "C17/truncation-prefix")
		}
	}
	caret := idx - ws - nb
	if caret < 0 {
		caret = 0
		v.Reach("C17/position-in-leading-blanks")
	}
	v.Assert(len(ptr) == caret+1, "C17/caret-column")
	if len(ptr) == caret+1 {
		v.Assert(ptr[caret] == '^', "C17/caret-char")
	}
	if wl > 1 {
		v.Reach("C17/second-line")
	}
}

// ZZC17Render: every file content of up to maxlen bytes (all 256 values per
// byte, restricted to the three pure line-end conventions) x every position.
func ZZC17Render() {
	n := v.Choose(1, v.Param("maxlen", 4))
	content := v.Bytes(n)
	idx := v.Choose(0, n-1)
	v.Observe("content", content)
	v.Observe("index", idx)
	zzRenderChecks(content, idx)
}

// ZZC17Trunc: a long line around the 200-byte truncation limit, symbolic
// leading bytes and every position.
func ZZC17Trunc() {
	L := 196 + v.Choose(0, 8)
	head := v.Bytes(3)
	for _, h := range head {
		v.Assume(h == ' ' || h == '\t' || h == 'a')
	}
	content := make([]byte, 0, L+2)
	content = append(content, head...)
	for len(content) < L {
		content = append(content, 'a')
	}
	if v.Choose(0, 1) == 1 {
		content = append(content, '\n', 'b')
	}
	stride := v.Param("stride", 1)
	idx := v.Choose(0, (len(content)-1)/stride) * stride
	v.Observe("len", L)
	v.Observe("index", idx)
	zzRenderChecks(content, idx)
}

// ZZC17NoIndex: errors without index / without file / empty content render without panic.
func ZZC17NoIndex() {
	mode := v.Choose(0, 2)
	var e DocumentError
	switch mode {
	case 0:
		e = NewDocumentError(nil, Format(ErrGeneric, "m"))
	case 1:
		e = NewDocumentError(fs.NewFile("f", v.Bytes(v.Choose(0, 2))), Format(ErrGeneric, "m"))
	case 2:
		e = NewDocumentError(fs.NewFile("", []byte("abc")), Format(ErrGeneric, "m"))
	}
	if v.Choose(0, 1) == 1 {
		e.SetIndex(0) // a positioned error on a possibly empty file
	}
	v.Observe("mode", mode)
	panicked := true
	func() {
		defer func() { recover() }()
		_ = e.Error()
		_ = e.Line()
		_ = e.SourceSubString()
		panicked = false
	}()
	v.Assert(!panicked, "C17/render-panics-noindex")
}

var ZZHarnesses = map[string]func(){
	"ZZC17Render":  ZZC17Render,
	"ZZC17Trunc":   ZZC17Trunc,
	"ZZC17NoIndex": ZZC17NoIndex,
}
