//go:build verif

package jschema

import (
	"strconv"
	"strings"

	"github.com/jsightapi/jsight-schema-go-library/zzverif/gen"
	"github.com/jsightapi/jsight-schema-go-library/zzverif/om"
	"github.com/jsightapi/jsight-schema-go-library/zzverif/v"
)

// ---- adapter for ASTNodes

type zzAST struct{ m *ASTNodes }

func (a zzAST) Set(k, val string) { a.m.Set(k, ASTNode{Value: val}) }
func (a zzAST) Update(k string, fn func(string) string) {
	a.m.Update(k, func(n ASTNode) ASTNode { return ASTNode{Value: fn(n.Value)} })
}
func (a zzAST) GetValue(k string) string { return a.m.GetValue(k).Value }
func (a zzAST) Get(k string) (string, bool) {
	n, ok := a.m.Get(k)
	return n.Value, ok
}
func (a zzAST) Has(k string) bool { return a.m.Has(k) }
func (a zzAST) Len() int          { return a.m.Len() }
func (a zzAST) Delete(k string)   { a.m.Delete(k) }
func (a zzAST) Filter(fn func(k, val string) bool) {
	a.m.Filter(func(k string, n ASTNode) bool { return fn(k, n.Value) })
}
func (a zzAST) Find(fn func(k, val string) bool) (string, string, bool) {
	it, ok := a.m.Find(func(k string, n ASTNode) bool { return fn(k, n.Value) })
	return it.Key, it.Value.Value, ok
}
func (a zzAST) Each(fn func(k, val string) error) error {
	return a.m.Each(func(k string, n ASTNode) error { return fn(k, n.Value) })
}
func (a zzAST) EachSafe(fn func(k, val string)) {
	a.m.EachSafe(func(k string, n ASTNode) { fn(k, n.Value) })
}
func (a zzAST) Map(fn func(k, val string) (string, error)) error {
	return a.m.Map(func(k string, n ASTNode) (ASTNode, error) {
		s, err := fn(k, n.Value)
		return ASTNode{Value: s}, err
	})
}
func (a zzAST) JSON() (string, error) {
	b, err := a.m.MarshalJSON()
	return string(b), err
}
func (a zzAST) Inv() bool {
	if len(a.m.order) != len(a.m.data) {
		return false
	}
	for i, k := range a.m.order {
		if _, ok := a.m.data[k]; !ok {
			return false
		}
		for j := 0; j < i; j++ {
			if a.m.order[j] == k {
				return false
			}
		}
	}
	return true
}
func (a zzAST) WantJSON(keys, vals []string) string {
	var sb strings.Builder
	sb.WriteString("{")
	for i, k := range keys {
		if i > 0 {
			sb.WriteString(",")
		}
		sb.WriteString(strconv.Quote(k) + `:{"TokenType":"","SchemaType":"","Key":"","Value":` + strconv.Quote(vals[i]) + `,"Comment":"","Rules":null,"Children":null,"IsKeyShortcut":false}`)
	}
	sb.WriteString("}")
	return sb.String()
}

// ---- adapter for RuleASTNodes

type zzRule struct{ m *RuleASTNodes }

func (a zzRule) Set(k, val string) { a.m.Set(k, RuleASTNode{Value: val}) }
func (a zzRule) Update(k string, fn func(string) string) {
	a.m.Update(k, func(n RuleASTNode) RuleASTNode { return RuleASTNode{Value: fn(n.Value)} })
}
func (a zzRule) GetValue(k string) string { return a.m.GetValue(k).Value }
func (a zzRule) Get(k string) (string, bool) {
	n, ok := a.m.Get(k)
	return n.Value, ok
}
func (a zzRule) Has(k string) bool { return a.m.Has(k) }
func (a zzRule) Len() int          { return a.m.Len() }
func (a zzRule) Delete(k string)   { a.m.Delete(k) }
func (a zzRule) Filter(fn func(k, val string) bool) {
	a.m.Filter(func(k string, n RuleASTNode) bool { return fn(k, n.Value) })
}
func (a zzRule) Find(fn func(k, val string) bool) (string, string, bool) {
	it, ok := a.m.Find(func(k string, n RuleASTNode) bool { return fn(k, n.Value) })
	return it.Key, it.Value.Value, ok
}
func (a zzRule) Each(fn func(k, val string) error) error {
	return a.m.Each(func(k string, n RuleASTNode) error { return fn(k, n.Value) })
}
func (a zzRule) EachSafe(fn func(k, val string)) {
	a.m.EachSafe(func(k string, n RuleASTNode) { fn(k, n.Value) })
}
func (a zzRule) Map(fn func(k, val string) (string, error)) error {
	return a.m.Map(func(k string, n RuleASTNode) (RuleASTNode, error) {
		s, err := fn(k, n.Value)
		return RuleASTNode{Value: s}, err
	})
}
func (a zzRule) JSON() (string, error) {
	b, err := a.m.MarshalJSON()
	return string(b), err
}
func (a zzRule) Inv() bool {
	if len(a.m.order) != len(a.m.data) {
		return false
	}
	for i, k := range a.m.order {
		if _, ok := a.m.data[k]; !ok {
			return false
		}
		for j := 0; j < i; j++ {
			if a.m.order[j] == k {
				return false
			}
		}
	}
	return true
}
func (a zzRule) WantJSON(keys, vals []string) string {
	var sb strings.Builder
	sb.WriteString("{")
	for i, k := range keys {
		if i > 0 {
			sb.WriteString(",")
		}
		sb.WriteString(strconv.Quote(k) + `:{"TokenType":"","Value":` + strconv.Quote(vals[i]) + `,"Comment":"","Properties":null,"Items":null,"Source":0}`)
	}
	sb.WriteString("}")
	return sb.String()
}

func ZZC19ASTNodes()         { om.One(zzAST{&ASTNodes{}}, false) }
func ZZC19RuleASTNodes()     { om.One(zzRule{&RuleASTNodes{}}, false) }
func ZZC19RuleASTNodesMake() { om.One(zzRule{MakeRuleASTNodes(2)}, false) }
func ZZC19ASTNodesJSON()     { om.One(zzAST{&ASTNodes{}}, true) }
func ZZC19RuleASTNodesJSON() { om.One(zzRule{&RuleASTNodes{}}, true) }

// ZZC19KeyJSON: the JSON text of a map is well-formed JSON whatever bytes its keys hold (control
// characters, DEL, quotes, invalid UTF-8): one key of 1..keylen arbitrary bytes, on both public maps.
func ZZC19KeyJSON() {
	n := v.Choose(1, v.Param("keylen", 1))
	k := string(v.Bytes(n))
	v.Observe("key", k)
	var js []byte
	var err error
	if v.Choose(0, 1) == 0 {
		m := &ASTNodes{}
		m.Set(k, ASTNode{Value: "x"})
		js, err = m.MarshalJSON()
	} else {
		m := &RuleASTNodes{}
		m.Set(k, RuleASTNode{Value: "x"})
		js, err = m.MarshalJSON()
	}
	v.Assert(err == nil, "C19/json-error")
	if err != nil {
		return
	}
	v.Observe("json", js)
	v.Assert(gen.JSONText(js), "C19/json-text-is-not-json")
	v.Reach("C19/key-json")
}

var ZZHarnesses = map[string]func(){
	"ZZC19KeyJSON":          ZZC19KeyJSON,
	"ZZC19ASTNodes":         ZZC19ASTNodes,
	"ZZC19RuleASTNodes":     ZZC19RuleASTNodes,
	"ZZC19RuleASTNodesMake": ZZC19RuleASTNodesMake,
	"ZZC19ASTNodesJSON":     ZZC19ASTNodesJSON,
	"ZZC19RuleASTNodesJSON": ZZC19RuleASTNodesJSON,
}
