//go:build verif

package json

import (
	stdErrors "errors"
	"io"

	"github.com/jsightapi/jsight-schema-go-library/errors"
	"github.com/jsightapi/jsight-schema-go-library/internal/lexeme"
	"github.com/jsightapi/jsight-schema-go-library/zzverif/gen"
	"github.com/jsightapi/jsight-schema-go-library/zzverif/v"
)

func zzJSONText(b []byte) bool          { return gen.JSONText(b) }
func zzJSONPrefix(b []byte) (int, bool) { return gen.JSONPrefix(b) }

// ---- harnesses

// ZZC05Check: every byte string of length 0..maxlen (all 256 values per byte).
func ZZC05Check() {
	n := v.Choose(v.Param("minlen", 0), v.Param("maxlen", 4))
	data := v.Bytes(n)
	v.Observe("data", data)
	want := zzJSONText(data)
	var err error
	panicked := true
	func() {
		defer func() { recover() }()
		err = New("doc", data).Check()
		panicked = false
	}()
	v.Assert(!panicked, "C05/check-panics")
	if panicked {
		return
	}
	if want {
		v.Reach("C05/valid")
		v.Assert(err == nil, "C05/valid-json-rejected")
	} else {
		v.Reach("C05/invalid")
		v.Assert(err != nil, "C05/invalid-json-accepted")
		if err != nil {
			de, ok := err.(errors.DocumentError)
			v.Assert(ok, "C05/error-type")
			if ok && n > 0 {
				v.Assert(int(de.Index()) < n, "C17/json-error-position-outside-input")
			}
		}
	}
}

// ZZC05Trailing: with AllowTrailingNonSpaceCharacters Check succeeds iff the
// text begins with one complete JSON value (numbers taken maximally).
func ZZC05Trailing() {
	n := v.Choose(v.Param("minlen", 0), v.Param("maxlen", 4))
	data := v.Bytes(n)
	v.Observe("data", data)
	_, want := zzJSONPrefix(data)
	var err error
	panicked := true
	func() {
		defer func() { recover() }()
		err = New("doc", data, AllowTrailingNonSpaceCharacters()).Check()
		panicked = false
	}()
	v.Assert(!panicked, "C05/trailing-check-panics")
	if panicked {
		return
	}
	if want {
		v.Reach("C05/prefix-valid")
		v.Assert(err == nil, "C05/trailing-valid-prefix-rejected")
	} else {
		v.Reach("C05/prefix-invalid")
		v.Assert(err != nil, "C05/trailing-invalid-prefix-accepted")
	}
}

var zzPrefixes = []string{
	`{`, `{"a"`, `{"a":`, `{"a":1`, `{"a":1,`, `{"a":1,"b":[`, `{"a":{"b":`, `[`, `[1`, `[1,`, `[[`, `[[]`, `[{}`, `[{"a":[`,
	`"`, `"a`, `"\`, `"\u`, `"\u0`, `"\u00`, `"\u00e`, `"\u00e9`, `-`, `0`, `12`, `1.`, `1.5`, `1e`, `1E+`, `1.5e-3`, `t`, `tru`, `fals`, `nul`, `null`, ` `, `[1 `, `{"a" `, `{"a": `,
}

var zzSuffixes = []string{``, `]`, `}`, `"`, `1]`, `"}`, `]}`, ` `, `:1}`, `,2]`}

// ZZC05Holes: a concrete prefix (every kind of scanner state), 1..k fully
// symbolic bytes, a concrete suffix; Check against the reference recogniser,
// in both modes.
func ZZC05Holes() {
	pi := v.Choose(0, len(zzPrefixes)-1)
	k := v.Choose(1, v.Param("holes", 2))
	si := v.Choose(0, len(zzSuffixes)-1)
	data := []byte(zzPrefixes[pi])
	data = append(data, v.Bytes(k)...)
	data = append(data, zzSuffixes[si]...)
	v.Observe("data", data)
	trailing := v.Param("trailing", 0) != 0
	var want bool
	if trailing {
		_, want = zzJSONPrefix(data)
	} else {
		want = zzJSONText(data)
	}
	var err error
	panicked := true
	func() {
		defer func() { recover() }()
		if trailing {
			err = New("doc", data, AllowTrailingNonSpaceCharacters()).Check()
		} else {
			err = New("doc", data).Check()
		}
		panicked = false
	}()
	v.Assert(!panicked, "C05/check-panics")
	if panicked {
		return
	}
	if want {
		v.Reach("C05/valid")
		v.Assert(err == nil, "C05/valid-json-rejected")
	} else {
		v.Reach("C05/invalid")
		v.Assert(err != nil, "C05/invalid-json-accepted")
		if err != nil {
			de, ok := err.(errors.DocumentError)
			v.Assert(ok, "C05/error-type")
			if ok {
				v.Assert(int(de.Index()) < len(data), "C17/json-error-position-outside-input")
			}
		}
	}
}

var _ = stdErrors.Is
var _ = io.EOF
var _ lexeme.LexEvent

var ZZHarnesses = map[string]func(){
	"ZZC05Check":    ZZC05Check,
	"ZZC05Trailing": ZZC05Trailing,
	"ZZC05Holes":    ZZC05Holes,
}
