//go:build verif

package json

import (
	stdErrors "errors"
	"io"

	"github.com/jsightapi/jsight-schema-go-library/errors"
	"github.com/jsightapi/jsight-schema-go-library/internal/lexeme"
	"github.com/jsightapi/jsight-schema-go-library/zzverif/v"
)

// ---- reference RFC 8259 recogniser over a byte slice of concrete length

func zzWS(c byte) bool { return c == ' ' || c == '\t' || c == '\n' || c == '\r' }
func zzDig(c byte) bool { return '0' <= c && c <= '9' }
func zzHex(c byte) bool {
	return zzDig(c) || ('a' <= c && c <= 'f') || ('A' <= c && c <= 'F')
}

func zzSkipWS(b []byte, i int) int {
	for i < len(b) && zzWS(b[i]) {
		i++
	}
	return i
}

// zzLit matches a keyword at i.
func zzLit(b []byte, i int, w string) (int, bool) {
	if i+len(w) > len(b) {
		return i, false
	}
	for k := 0; k < len(w); k++ {
		if b[i+k] != w[k] {
			return i, false
		}
	}
	return i + len(w), true
}

func zzString(b []byte, i int) (int, bool) {
	if i >= len(b) || b[i] != '"' {
		return i, false
	}
	i++
	for i < len(b) {
		c := b[i]
		switch {
		case c == '"':
			return i + 1, true
		case c == '\\':
			i++
			if i >= len(b) {
				return i, false
			}
			e := b[i]
			switch {
			case e == '"' || e == '\\' || e == '/' || e == 'b' || e == 'f' || e == 'n' || e == 'r' || e == 't':
				i++
			case e == 'u':
				if i+4 >= len(b) {
					return i, false
				}
				if !zzHex(b[i+1]) || !zzHex(b[i+2]) || !zzHex(b[i+3]) || !zzHex(b[i+4]) {
					return i, false
				}
				i += 5
			default:
				return i, false
			}
		case c < 0x20:
			return i, false
		default:
			i++
		}
	}
	return i, false
}

// zzNumber matches a number maximally at i.
func zzNumber(b []byte, i int) (int, bool) {
	if i < len(b) && b[i] == '-' {
		i++
	}
	if i >= len(b) {
		return i, false
	}
	if b[i] == '0' {
		i++
	} else if '1' <= b[i] && b[i] <= '9' {
		for i < len(b) && zzDig(b[i]) {
			i++
		}
	} else {
		return i, false
	}
	if i < len(b) && b[i] == '.' {
		i++
		if i >= len(b) || !zzDig(b[i]) {
			return i, false
		}
		for i < len(b) && zzDig(b[i]) {
			i++
		}
	}
	if i < len(b) && (b[i] == 'e' || b[i] == 'E') {
		i++
		if i < len(b) && (b[i] == '+' || b[i] == '-') {
			i++
		}
		if i >= len(b) || !zzDig(b[i]) {
			return i, false
		}
		for i < len(b) && zzDig(b[i]) {
			i++
		}
	}
	return i, true
}

func zzValue(b []byte, i int, depth int) (int, bool) {
	if i >= len(b) || depth > 40 {
		return i, false
	}
	c := b[i]
	switch {
	case c == '{':
		i = zzSkipWS(b, i+1)
		if i < len(b) && b[i] == '}' {
			return i + 1, true
		}
		for {
			var ok bool
			i, ok = zzString(b, i)
			if !ok {
				return i, false
			}
			i = zzSkipWS(b, i)
			if i >= len(b) || b[i] != ':' {
				return i, false
			}
			i = zzSkipWS(b, i+1)
			i, ok = zzValue(b, i, depth+1)
			if !ok {
				return i, false
			}
			i = zzSkipWS(b, i)
			if i >= len(b) {
				return i, false
			}
			if b[i] == '}' {
				return i + 1, true
			}
			if b[i] != ',' {
				return i, false
			}
			i = zzSkipWS(b, i+1)
		}
	case c == '[':
		i = zzSkipWS(b, i+1)
		if i < len(b) && b[i] == ']' {
			return i + 1, true
		}
		for {
			var ok bool
			i, ok = zzValue(b, i, depth+1)
			if !ok {
				return i, false
			}
			i = zzSkipWS(b, i)
			if i >= len(b) {
				return i, false
			}
			if b[i] == ']' {
				return i + 1, true
			}
			if b[i] != ',' {
				return i, false
			}
			i = zzSkipWS(b, i+1)
		}
	case c == '"':
		return zzString(b, i)
	case c == 't':
		return zzLit(b, i, "true")
	case c == 'f':
		return zzLit(b, i, "false")
	case c == 'n':
		return zzLit(b, i, "null")
	case c == '-' || zzDig(c):
		return zzNumber(b, i)
	}
	return i, false
}

// zzJSONText: the whole input is one JSON value surrounded by optional white space.
func zzJSONText(b []byte) bool {
	i := zzSkipWS(b, 0)
	i, ok := zzValue(b, i, 0)
	if !ok {
		return false
	}
	return zzSkipWS(b, i) == len(b)
}

// zzJSONPrefix: the input begins (after white space) with one complete JSON value.
func zzJSONPrefix(b []byte) (int, bool) {
	i := zzSkipWS(b, 0)
	return zzValue(b, i, 0)
}

// ---- harnesses

// ZZC05Check: every byte string of length 0..maxlen (all 256 values per byte).
func ZZC05Check() {
	n := v.Choose(v.Param("minlen", 0), v.Param("maxlen", 4))
	data := v.Bytes(n)
	v.Observe("data", data)
	want := zzJSONText(data)
	var err error
	panicked := true
	func() {
		defer func() { recover() }()
		err = New("doc", data).Check()
		panicked = false
	}()
	v.Assert(!panicked, "C05/check-panics")
	if panicked {
		return
	}
	if want {
		v.Reach("C05/valid")
		v.Assert(err == nil, "C05/valid-json-rejected")
	} else {
		v.Reach("C05/invalid")
		v.Assert(err != nil, "C05/invalid-json-accepted")
		if err != nil {
			de, ok := err.(errors.DocumentError)
			v.Assert(ok, "C05/error-type")
			if ok && n > 0 {
				v.Assert(int(de.Index()) < n, "C17/json-error-position-outside-input")
			}
		}
	}
}

// ZZC05Trailing: with AllowTrailingNonSpaceCharacters Check succeeds iff the
// text begins with one complete JSON value (numbers taken maximally).
func ZZC05Trailing() {
	n := v.Choose(v.Param("minlen", 0), v.Param("maxlen", 4))
	data := v.Bytes(n)
	v.Observe("data", data)
	_, want := zzJSONPrefix(data)
	var err error
	panicked := true
	func() {
		defer func() { recover() }()
		err = New("doc", data, AllowTrailingNonSpaceCharacters()).Check()
		panicked = false
	}()
	v.Assert(!panicked, "C05/trailing-check-panics")
	if panicked {
		return
	}
	if want {
		v.Reach("C05/prefix-valid")
		v.Assert(err == nil, "C05/trailing-valid-prefix-rejected")
	} else {
		v.Reach("C05/prefix-invalid")
		v.Assert(err != nil, "C05/trailing-invalid-prefix-accepted")
	}
}

var zzPrefixes = []string{
	`{`, `{"a"`, `{"a":`, `{"a":1`, `{"a":1,`, `{"a":1,"b":[`, `{"a":{"b":`, `[`, `[1`, `[1,`, `[[`, `[[]`, `[{}`, `[{"a":[`,
	`"`, `"a`, `"\`, `"\u`, `"\u0`, `"\u00`, `"\u00e`, `"\u00e9`, `-`, `0`, `12`, `1.`, `1.5`, `1e`, `1E+`, `1.5e-3`, `t`, `tru`, `fals`, `nul`, `null`, ` `, `[1 `, `{"a" `, `{"a": `,
}

var zzSuffixes = []string{``, `]`, `}`, `"`, `1]`, `"}`, `]}`, ` `, `:1}`, `,2]`}

// ZZC05Holes: a concrete prefix (every kind of scanner state), 1..k fully
// symbolic bytes, a concrete suffix; Check against the reference recogniser,
// in both modes.
func ZZC05Holes() {
	pi := v.Choose(0, len(zzPrefixes)-1)
	k := v.Choose(1, v.Param("holes", 2))
	si := v.Choose(0, len(zzSuffixes)-1)
	data := []byte(zzPrefixes[pi])
	data = append(data, v.Bytes(k)...)
	data = append(data, zzSuffixes[si]...)
	v.Observe("data", data)
	trailing := v.Param("trailing", 0) != 0
	var want bool
	if trailing {
		_, want = zzJSONPrefix(data)
	} else {
		want = zzJSONText(data)
	}
	var err error
	panicked := true
	func() {
		defer func() { recover() }()
		if trailing {
			err = New("doc", data, AllowTrailingNonSpaceCharacters()).Check()
		} else {
			err = New("doc", data).Check()
		}
		panicked = false
	}()
	v.Assert(!panicked, "C05/check-panics")
	if panicked {
		return
	}
	if want {
		v.Reach("C05/valid")
		v.Assert(err == nil, "C05/valid-json-rejected")
	} else {
		v.Reach("C05/invalid")
		v.Assert(err != nil, "C05/invalid-json-accepted")
		if err != nil {
			de, ok := err.(errors.DocumentError)
			v.Assert(ok, "C05/error-type")
			if ok {
				v.Assert(int(de.Index()) < len(data), "C17/json-error-position-outside-input")
			}
		}
	}
}

var _ = stdErrors.Is
var _ = io.EOF
var _ lexeme.LexEvent

var ZZHarnesses = map[string]func(){
	"ZZC05Check":    ZZC05Check,
	"ZZC05Trailing": ZZC05Trailing,
	"ZZC05Holes":    ZZC05Holes,
}
