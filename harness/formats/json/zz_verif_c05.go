//go:build verif

package json

import (
	stdErrors "errors"
	"io"

	"github.com/jsightapi/jsight-schema-go-library/errors"
	"github.com/jsightapi/jsight-schema-go-library/fs"
	"github.com/jsightapi/jsight-schema-go-library/internal/lexeme"
	"github.com/jsightapi/jsight-schema-go-library/zzverif/gen"
	"github.com/jsightapi/jsight-schema-go-library/zzverif/v"
)

func zzJSONText(b []byte) bool          { return gen.JSONText(b) }
func zzJSONPrefix(b []byte) (int, bool) { return gen.JSONPrefix(b) }

// ---- harnesses

// ZZC05Check: every byte string of length 0..maxlen (all 256 values per byte).
func ZZC05Check() {
	n := v.Choose(v.Param("minlen", 0), v.Param("maxlen", 4))
	data := v.Bytes(n)
	v.Observe("data", data)
	want := zzJSONText(data)
	var err error
	panicked := true
	func() {
		defer func() { recover() }()
		err = New("doc", data).Check()
		panicked = false
	}()
	v.Assert(!panicked, "C05/check-panics")
	if panicked {
		return
	}
	if want {
		v.Reach("C05/valid")
		v.Assert(err == nil, "C05/valid-json-rejected")
	} else {
		v.Reach("C05/invalid")
		v.Assert(err != nil, "C05/invalid-json-accepted")
		if err != nil {
			de, ok := err.(errors.DocumentError)
			v.Assert(ok, "C05/error-type")
			if ok && n > 0 {
				v.Assert(int(de.Index()) < n, "C17/json-error-position-outside-input")
			}
		}
	}
}

// ZZC05Trailing: with AllowTrailingNonSpaceCharacters Check succeeds iff the
// text begins with one complete JSON value (numbers taken maximally).
func ZZC05Trailing() {
	n := v.Choose(v.Param("minlen", 0), v.Param("maxlen", 4))
	data := v.Bytes(n)
	v.Observe("data", data)
	_, want := zzJSONPrefix(data)
	var err error
	panicked := true
	func() {
		defer func() { recover() }()
		err = New("doc", data, AllowTrailingNonSpaceCharacters()).Check()
		panicked = false
	}()
	v.Assert(!panicked, "C05/trailing-check-panics")
	if panicked {
		return
	}
	if want {
		v.Reach("C05/prefix-valid")
		v.Assert(err == nil, "C05/trailing-valid-prefix-rejected")
	} else {
		v.Reach("C05/prefix-invalid")
		v.Assert(err != nil, "C05/trailing-invalid-prefix-accepted")
	}
}

var zzPrefixes = []string{
	`{`, `{"a"`, `{"a":`, `{"a":1`, `{"a":1,`, `{"a":1,"b":[`, `{"a":{"b":`, `[`, `[1`, `[1,`, `[[`, `[[]`, `[{}`, `[{"a":[`,
	`"`, `"a`, `"\`, `"\u`, `"\u0`, `"\u00`, `"\u00e`, `"\u00e9`, `-`, `0`, `12`, `1.`, `1.5`, `1e`, `1E+`, `1.5e-3`, `t`, `tru`, `fals`, `nul`, `null`, ` `, `[1 `, `{"a" `, `{"a": `,
}

var zzSuffixes = []string{``, `]`, `}`, `"`, `1]`, `"}`, `]}`, ` `, `:1}`, `,2]`}

// ZZC05Holes: a concrete prefix (every kind of scanner state), 1..k fully
// symbolic bytes, a concrete suffix; Check against the reference recogniser,
// in both modes.
func ZZC05Holes() {
	pi := v.Choose(0, len(zzPrefixes)-1)
	k := v.Choose(1, v.Param("holes", 2))
	si := v.Choose(0, len(zzSuffixes)-1)
	data := []byte(zzPrefixes[pi])
	data = append(data, v.Bytes(k)...)
	data = append(data, zzSuffixes[si]...)
	v.Observe("data", data)
	trailing := v.Param("trailing", 0) != 0
	var want bool
	if trailing {
		_, want = zzJSONPrefix(data)
	} else {
		want = zzJSONText(data)
	}
	var err error
	panicked := true
	func() {
		defer func() { recover() }()
		if trailing {
			err = New("doc", data, AllowTrailingNonSpaceCharacters()).Check()
		} else {
			err = New("doc", data).Check()
		}
		panicked = false
	}()
	v.Assert(!panicked, "C05/check-panics")
	if panicked {
		return
	}
	if want {
		v.Reach("C05/valid")
		v.Assert(err == nil, "C05/valid-json-rejected")
	} else {
		v.Reach("C05/invalid")
		v.Assert(err != nil, "C05/invalid-json-accepted")
		if err != nil {
			de, ok := err.(errors.DocumentError)
			v.Assert(ok, "C05/error-type")
			if ok {
				v.Assert(int(de.Index()) < len(data), "C17/json-error-position-outside-input")
			}
		}
	}
}

// ---- state-merged exploration (one step of the scanner from an abstract state)

// zzKey is a canonical name of the scanner's control state: everything the
// following transitions depend on (positions are left out).
func zzKey(s *scanner) string {
	k := v.FuncName(s.step) + "/"
	for i := 0; i < s.returnToStep.Len(); i++ {
		k += v.FuncName(s.returnToStep.Get(i)) + ","
	}
	k += "/"
	for i := 0; i < s.stack.Len(); i++ {
		k += string(rune('a' + int(s.stack.Get(i).Type())))
	}
	if s.unfinishedLiteral {
		k += "/u"
	}
	return k
}

// zzDrive feeds the remaining bytes to the step function exactly as Next does,
// without the end-of-input rule.
func zzDrive(s *scanner) (ok bool, idx int) {
	defer func() {
		if r := recover(); r != nil {
			de, isDE := r.(errors.DocumentError)
			if !isDE {
				panic(r)
			}
			ok, idx = false, int(de.Index())
		}
	}()
	for s.index < s.dataSize {
		c := s.data[s.index]
		s.index++
		s.step(s, c)
		for len(s.finds) != 0 {
			s.processingFoundLexeme(s.shiftFound())
		}
	}
	return true, -1
}

// ZZC05Auto: the scanner and the reference automaton are brought to a reachable
// state by a concrete witness prefix; the next byte is symbolic. The byte is
// refused by the scanner iff the reference automaton dies on it (and the error
// points at it); if the text ended here Check would accept iff the reference is
// in a complete state (and an early end is reported at the last byte); the
// successor state pair is reported for the breadth-first driver.
func ZZC05Auto() {
	prefix := v.ParamBytes("prefix")
	trailing := v.Param("trailing", 0) != 0
	maxDepth := v.Param("depth", 3)
	c := v.Byte()
	data := append(append([]byte{}, prefix...), c)
	v.Observe("prefix", prefix)
	v.Observe("byte", c)

	var ref gen.JS
	step := func(b byte) bool {
		if ref.Mode == gen.JSDead {
			return false
		}
		wasComplete := ref.Complete()
		if ref.Step(b) {
			return true
		}
		if trailing && wasComplete {
			ref = gen.JS{Mode: gen.JSTrailing}
			return true
		}
		ref = gen.JS{Mode: gen.JSDead}
		return false
	}
	for _, b := range prefix {
		step(b)
	}
	wasDead := ref.Mode == gen.JSDead
	wasComplete := ref.Complete() && ref.Mode != gen.JSTrailing
	refOK := step(c)
	if trailing && wasComplete && ref.Mode == gen.JSTrailing {
		// C14: the value ended before this foreign byte; Len is the prefix without its trailing blanks
		want := len(prefix)
		for want > 0 && (prefix[want-1] == ' ' || prefix[want-1] == '\t' || prefix[want-1] == '\n' || prefix[want-1] == '\r') {
			want--
		}
		l, lerr := New("doc", data, AllowTrailingNonSpaceCharacters()).Len()
		v.Reach("C14/auto-json-len")
		v.Assert(lerr == nil, "C14/json-len-error-on-complete-value")
		if lerr == nil {
			v.Assert(int(l) == want, "C14/json-len")
		}
	}

	s := newScanner(fs.NewFile("doc", data))
	s.allowTrailingNonSpaceCharacters = trailing
	implOK, idx := zzDrive(s)
	late := false
	switch {
	case refOK:
		v.Reach("C05/auto-byte-viable")
		v.Assert(implOK, "C05/viable-prefix-rejected")
	case !wasDead:
		v.Reach("C05/auto-byte-dead")
		if implOK {
			// reported at the end so that the language-equality assertions still run from here
			late = true
		} else {
			v.Assert(idx == len(prefix), "C17/json-parse-error-position")
		}
	}
	if !implOK {
		return
	}
	// the text ends here
	var err error
	if trailing {
		err = New("doc", data, AllowTrailingNonSpaceCharacters()).Check()
	} else {
		err = New("doc", data).Check()
	}
	if ref.Complete() {
		v.Reach("C05/auto-eof-complete")
		v.Assert(err == nil, "C05/valid-json-rejected")
	} else {
		v.Reach("C05/auto-eof-early")
		v.Assert(err != nil, "C05/invalid-json-accepted")
		if err != nil && !ref.Blank() && ref.Mode != gen.JSDead {
			de, isDE := err.(errors.DocumentError)
			v.Assert(isDE, "C05/error-type")
			if isDE {
				v.Assert(int(de.Index()) == len(data)-1, "C17/json-early-end-position")
			}
		}
	}
	if ref.Depth() <= maxDepth && s.stack.Len() <= 2*maxDepth+4 {
		k := zzKey(s) + "|" + ref.Key()
		if trailing && ref.Complete() {
			// Len trims the blanks in front of the foreign byte by reading the text backwards: keep apart
			// the states reached with 0, 1 and 2 or more trailing blanks
			nb := 0
			for nb < 2 && nb < len(data) && (data[len(data)-1-nb] == ' ' || data[len(data)-1-nb] == '\t' || data[len(data)-1-nb] == '\n' || data[len(data)-1-nb] == '\r') {
				nb++
			}
			k += "|b" + string(rune('0'+nb))
		}
		v.Key(k)
	}
	if late {
		v.Fail("C17/json-first-bad-byte-not-reported")
	}
}

var _ = stdErrors.Is
var _ = io.EOF
var _ lexeme.LexEvent

var ZZHarnesses = map[string]func(){
	"ZZC05Check":    ZZC05Check,
	"ZZC05Trailing": ZZC05Trailing,
	"ZZC05Holes":    ZZC05Holes,
	"ZZC05Auto":     ZZC05Auto,
}
