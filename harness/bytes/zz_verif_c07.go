//go:build verif

package bytes

import (
	"github.com/jsightapi/jsight-schema-go-library/zzverif/v"
)

// ZZC07Unquote: the string decoder behind keys, enum items, const and length rules never panics,
// whatever bytes stand between the quotes (malformed UTF-8, truncated and bad escapes), and a
// literal made of plain ASCII bytes decodes to itself.
func ZZC07Unquote() {
	n := v.Choose(0, v.Param("maxlen", 6))
	body := v.Bytes(n)
	s := append(append([]byte{'"'}, body...), '"')
	v.Observe("literal", s)
	var out Bytes
	panicked := true
	func() {
		defer func() { recover() }()
		out = Bytes(s).Unquote()
		panicked = false
	}()
	v.Assert(!panicked, "C07/unquote-panics")
	if panicked {
		return
	}
	plain := true
	for _, c := range body {
		if c < 0x20 || c >= 0x7f || c == '"' || c == '\\' {
			plain = false
		}
	}
	if plain {
		v.Reach("C07/unquote-plain")
		same := len(out) == n
		for i := 0; same && i < n; i++ {
			same = out[i] == body[i]
		}
		v.Assert(same, "C07/unquote-changes-plain-text")
	} else {
		v.Reach("C07/unquote-other")
	}
}

// ZZC07UnquoteHigh: longer literals made of bytes >= 0x80 only (each malformed byte decodes to the
// three bytes of U+FFFD, the worst growth the decoder meets), optionally after some ASCII text.
func ZZC07UnquoteHigh() {
	n := v.Choose(v.Param("minhigh", 6), v.Param("maxhigh", 12))
	body := v.Bytes(n)
	// one class of malformed bytes per run: continuation bytes without a lead byte, or bytes that
	// never occur in UTF-8 (free mixtures of lead and continuation bytes are covered up to 6 bytes
	// by ZZC07Unquote; beyond that they multiply paths without adding growth)
	never := v.Choose(0, 1) == 1
	for _, c := range body {
		if never {
			v.Assume(c >= 0xf8)
		} else {
			v.Assume(c >= 0x80 && c <= 0xbf)
		}
	}
	s := []byte{'"'}
	if v.Choose(0, 1) == 1 {
		s = append(s, "ab"...)
	}
	s = append(append(s, body...), '"')
	v.Observe("literal", s)
	panicked := true
	func() {
		defer func() { recover() }()
		_ = Bytes(s).Unquote()
		panicked = false
	}()
	v.Assert(!panicked, "C07/unquote-panics")
	v.Reach("C07/unquote-high")
}

var ZZHarnesses = map[string]func(){"ZZC07Unquote": ZZC07Unquote, "ZZC07UnquoteHigh": ZZC07UnquoteHigh}
