//go:build verif

package bytes

import (
	"github.com/jsightapi/jsight-schema-go-library/zzverif/v"
)

// ZZC07Unquote: the string decoder behind keys, enum items, const and length rules never panics,
// whatever bytes stand between the quotes (malformed UTF-8, truncated and bad escapes), and a
// literal made of plain ASCII bytes decodes to itself.
func ZZC07Unquote() {
	n := v.Choose(0, v.Param("maxlen", 6))
	body := v.Bytes(n)
	s := append(append([]byte{'"'}, body...), '"')
	v.Observe("literal", s)
	var out Bytes
	panicked := true
	func() {
		defer func() { recover() }()
		out = Bytes(s).Unquote()
		panicked = false
	}()
	v.Assert(!panicked, "C07/unquote-panics")
	if panicked {
		return
	}
	plain := true
	for _, c := range body {
		if c < 0x20 || c >= 0x7f || c == '"' || c == '\\' {
			plain = false
		}
	}
	if plain {
		v.Reach("C07/unquote-plain")
		same := len(out) == n
		for i := 0; same && i < n; i++ {
			same = out[i] == body[i]
		}
		v.Assert(same, "C07/unquote-changes-plain-text")
	} else {
		v.Reach("C07/unquote-other")
	}
}

var ZZHarnesses = map[string]func(){"ZZC07Unquote": ZZC07Unquote}
