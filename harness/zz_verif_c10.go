//go:build verif

package jschema

import (
	ijson "github.com/jsightapi/jsight-schema-go-library/internal/json"
	"github.com/jsightapi/jsight-schema-go-library/zzverif/v"
)

// ZZC10Guess: GuessSchemaType (used for additionalProperties and enum items) carries its own copy of
// the integer/float classification; on every numeral it must agree with internal/json.Guess, which
// the C10 harnesses compare with the exact value.
func ZZC10Guess() {
	n := v.Choose(1, v.Param("maxlen", 5))
	a := v.Bytes(n)
	v.Observe("a", a)
	v.Assume(ijson.ZZIsNumeral(a, v.Param("maxexp", 12)))
	v.Reach("C10/guess-numeral")
	if _, nerr := ijson.NewNumber(a); nerr != nil {
		return // refused numerals (the 0e1 known finding) are judged by the C10 harnesses of internal/json
	}
	t, err := GuessSchemaType(a)
	// numerals NewNumber refuses (known finding 0e1) are refused here too: compare only what both accept
	g := ijson.Guess(a)
	isInt, ok := false, true
	func() {
		defer func() {
			if recover() != nil {
				ok = false
			}
		}()
		isInt = g.IsInteger()
	}()
	if !ok {
		return
	}
	v.Assert(err == nil, "C10/schema-type-of-numeral-unknown")
	if err != nil {
		return
	}
	if isInt {
		v.Assert(t == SchemaTypeInteger, "C10/schema-type-integer-classification")
	} else {
		v.Assert(t == SchemaTypeFloat, "C10/schema-type-float-classification")
	}
	// the guesser tries its predicates in map order: whatever the order, the answer is the same
	// (natively the call is repeated under Go's randomised order)
	if v.IsSymbolic() {
		v.MapOrder(1+v.Choose(0, 1), 0)
		t2, err2 := GuessSchemaType(a)
		v.MapOrder(0, 0)
		v.Assert(err2 == nil && t2 == t, "C11/schema-type-depends-on-map-order")
	} else {
		for i := 0; i < 200; i++ {
			t2, err2 := GuessSchemaType(a)
			v.Assert(err2 == nil && t2 == t, "C11/schema-type-depends-on-map-order")
		}
	}
}

// ZZC11GuessAny: the predicates GuessSchemaType tries in map order exclude each other on every byte
// string (bare, or between quotes): the answer - a type or "unknown" - is the same under every order.
func ZZC11GuessAny() {
	n := v.Choose(0, v.Param("maxlen", 4))
	a := v.Bytes(n)
	if v.Choose(0, 1) == 1 {
		a = append(append([]byte{'"'}, a...), '"')
	}
	v.Observe("a", a)
	t, err := GuessSchemaType(a)
	if err == nil {
		v.Reach("C11/guess-any-typed")
	} else {
		v.Reach("C11/guess-any-unknown")
	}
	if v.IsSymbolic() {
		v.MapOrder(1+v.Choose(0, 1), 0)
		t2, err2 := GuessSchemaType(a)
		v.MapOrder(0, 0)
		v.Assert((err2 == nil) == (err == nil) && t2 == t, "C11/schema-type-depends-on-map-order")
	} else {
		for i := 0; i < 200; i++ {
			t2, err2 := GuessSchemaType(a)
			v.Assert((err2 == nil) == (err == nil) && t2 == t, "C11/schema-type-depends-on-map-order")
		}
	}
}

func init() {
	ZZHarnesses["ZZC10Guess"] = ZZC10Guess
	ZZHarnesses["ZZC11GuessAny"] = ZZC11GuessAny
}
