//go:build verif

package json

import (
	"github.com/jsightapi/jsight-schema-go-library/zzverif/v"
)

// Reference model of an RFC 8259 numeral: layout is concrete per path, digits
// stay symbolic.
type zzNum struct {
	neg    bool
	digits []byte // mantissa digits: integer part followed by fraction part
	nfra   int    // number of fraction digits in the text
	hasDot bool
	hasExp bool
	exp    int // decimal exponent (concrete)
}

func zzIsDigit(c byte) bool { return '0' <= c && c <= '9' }

// zzParseNumeral recognises exactly the RFC 8259 number grammar over a.
// It forks on byte classes; exponent digits are concretised.
func zzParseNumeral(a []byte, maxExp int) (zzNum, bool) {
	var r zzNum
	i, n := 0, len(a)
	if i < n && a[i] == '-' {
		r.neg = true
		i++
	}
	if i >= n {
		return r, false
	}
	if a[i] == '0' {
		r.digits = append(r.digits, a[i])
		i++
	} else if '1' <= a[i] && a[i] <= '9' {
		for i < n && zzIsDigit(a[i]) {
			r.digits = append(r.digits, a[i])
			i++
		}
	} else {
		return r, false
	}
	if i < n && a[i] == '.' {
		r.hasDot = true
		i++
		if i >= n || !zzIsDigit(a[i]) {
			return r, false
		}
		for i < n && zzIsDigit(a[i]) {
			r.digits = append(r.digits, a[i])
			r.nfra++
			i++
		}
	}
	if i < n && (a[i] == 'e' || a[i] == 'E') {
		r.hasExp = true
		i++
		eneg := false
		if i < n && (a[i] == '+' || a[i] == '-') {
			eneg = a[i] == '-'
			i++
		}
		if i >= n || !zzIsDigit(a[i]) {
			return r, false
		}
		e := 0
		for i < n && zzIsDigit(a[i]) {
			d := v.Concrete(int(a[i] - '0'))
			e = e*10 + d
			if e > maxExp {
				v.Assume(false)
			}
			i++
		}
		if eneg {
			e = -e
		}
		r.exp = e
	}
	if i != n {
		return r, false
	}
	return r, true
}

// scale: value = D * 10^(-scale)
func (r zzNum) scale() int { return r.nfra - r.exp }

// zzIsZero: all mantissa digits are '0' (branch-free).
func (r zzNum) isZero() bool {
	var acc byte
	for _, d := range r.digits {
		acc |= d ^ '0'
	}
	return acc == 0
}

// fraDigit returns the digit at fractional position p (0 = first after the
// point) of the exact value; positions outside the mantissa are '0'.
func (r zzNum) fraDigit(p int) byte {
	// mantissa digit index k has weight 10^(len-1-k-scale); fractional position p has weight 10^-(p+1)
	k := len(r.digits) - r.scale() + p
	if k < 0 || k >= len(r.digits) {
		return '0'
	}
	return r.digits[k]
}

// intDigit returns the digit with weight 10^p (p>=0) of the exact value.
func (r zzNum) intDigit(p int) byte {
	k := len(r.digits) - 1 - r.scale() - p
	if k < 0 || k >= len(r.digits) {
		return '0'
	}
	return r.digits[k]
}

func (r zzNum) intLen() int { // number of integer positions that may be non-zero
	l := len(r.digits) - r.scale()
	if l < 0 {
		return 0
	}
	return l
}

func (r zzNum) fraLen() int {
	if r.scale() < 0 {
		return 0
	}
	return r.scale()
}

// zzCmpAbs compares |a| and |b| exactly: -1, 0, 1 (few branches; merged by the engine).
func zzCmpAbs(a, b zzNum) int {
	ip := a.intLen()
	if b.intLen() > ip {
		ip = b.intLen()
	}
	fp := a.fraLen()
	if b.fraLen() > fp {
		fp = b.fraLen()
	}
	res := int8(0) // narrow on purpose: the engine merges differing bytes, not ints
	// from least significant to most significant; a more significant difference overrides
	for p := fp - 1; p >= 0; p-- {
		x, y := a.fraDigit(p), b.fraDigit(p)
		if x < y {
			res = -1
		} else if x > y {
			res = 1
		}
	}
	for p := 0; p < ip; p++ {
		x, y := a.intDigit(p), b.intDigit(p)
		if x < y {
			res = -1
		} else if x > y {
			res = 1
		}
	}
	return int(res)
}

func zzCmp(a, b zzNum) int {
	c := zzCmpAbs(a, b)
	sa := a.neg && !a.isZero()
	sb := b.neg && !b.isZero()
	if sa != sb {
		if sa {
			return -1
		}
		return 1
	}
	if sa {
		return -c
	}
	return c
}

// isInt: the exact value is an integer (branch-free over digits).
func (r zzNum) isInt() bool {
	var acc byte
	for p := 0; p < r.fraLen(); p++ {
		acc |= r.fraDigit(p) ^ '0'
	}
	return acc == 0
}

// ZZC10One: one numeral of up to maxlen arbitrary bytes.
func ZZC10One() {
	n := v.Choose(1, v.Param("maxlen", 4))
	a := v.Bytes(n)
	v.Observe("a", a)
	r, ok := zzParseNumeral(a, v.Param("maxexp", 12))
	v.Assume(ok)
	v.Reach("C10/numeral")
	num, err := NewNumber(a)
	v.Assert(err == nil, "C10/numeral-rejected-by-NewNumber")
	if err != nil {
		return
	}
	// representation invariant
	v.Assert(num.exp >= 0 && num.exp <= len(num.nat), "C10/number-invariant")
	// fractional length after normalisation
	L := int(num.LengthOfFractionalPart())
	v.Assert(L <= r.fraLen(), "C10/fraction-length-too-long")
	var tail byte
	for p := L; p < r.fraLen(); p++ {
		tail |= r.fraDigit(p) ^ '0'
	}
	v.Assert(tail == 0, "C10/fraction-length-drops-nonzero-digit")
	if L > 0 {
		v.Assert(r.fraDigit(L-1) != '0', "C10/fraction-length-keeps-trailing-zero")
		v.Reach("C10/has-fraction")
	}
	// the stored digits are exactly the digits of the exact value (sign, every integer and
	// fractional position), so that min/max comparisons see the mathematical value
	v.Assert(num.neg == (r.neg && !r.isZero()), "C10/sign")
	il := len(num.nat) - num.exp
	if il < 0 {
		il = 0
	}
	v.Assert(il <= r.intLen(), "C10/integer-part-too-long")
	for p := 0; p < r.intLen(); p++ {
		var got byte = '0'
		if k := len(num.nat) - 1 - num.exp - p; k >= 0 && k < len(num.nat) && p < il {
			got = num.nat[k]
		}
		v.Assert(got == r.intDigit(p), "C10/integer-digit")
	}
	for p := 0; p < r.fraLen(); p++ {
		var got byte = '0'
		if k := len(num.nat) - num.exp + p; p < num.exp && k >= 0 && k < len(num.nat) {
			got = num.nat[k]
		}
		v.Assert(got == r.fraDigit(p), "C10/fraction-digit")
	}
	// classification depends on the value only
	g := Guess(a)
	v.Assert(g.IsInteger() == r.isInt(), "C10/integer-classification")
	g2 := Guess(a)
	v.Assert(g2.IsFloat() == !r.isInt(), "C10/float-classification")
	if r.hasExp {
		v.Reach("C10/exponent")
	}
}

// ZZC10Two: Cmp/Equal/GreaterThan... on two numerals against exact comparison.
func ZZC10Two() {
	na := v.Choose(1, v.Param("maxlen", 3))
	nb := v.Choose(1, v.Param("maxlenb", 3))
	a := v.Bytes(na)
	b := v.Bytes(nb)
	v.Observe("a", a)
	v.Observe("b", b)
	ra, ok := zzParseNumeral(a, v.Param("maxexp", 12))
	v.Assume(ok)
	rb, ok2 := zzParseNumeral(b, v.Param("maxexp", 12))
	v.Assume(ok2)
	x, err := NewNumber(a)
	v.Assume(err == nil) // acceptance is ZZC10One's assertion
	y, err2 := NewNumber(b)
	v.Assume(err2 == nil)
	v.Reach("C10/pair")
	want := zzCmp(ra, rb)
	got := x.Cmp(y)
	v.Assert(got == want, "C10/cmp")
	v.Assert(x.Equal(y) == (want == 0), "C10/equal")
	v.Assert(x.GreaterThan(y) == (want > 0), "C10/gt")
	v.Assert(x.GreaterThanOrEqual(y) == (want >= 0), "C10/gte")
	v.Assert(x.LessThan(y) == (want < 0), "C10/lt")
	v.Assert(x.LessThanOrEqual(y) == (want <= 0), "C10/lte")
}

// ZZC10LongExp: an exponent may be written with leading zeros, as many as one likes: the numeral
// D[.D]e[+|-]0...0E (L zeros, L around the lengths at which 32- and 64-bit digit counters end) is
// the number D[.D]e[+|-]E.
func ZZC10LongExp() {
	d := v.Byte()
	v.Assume('0' <= d && d <= '9')
	mant := []byte{d}
	if v.Choose(0, 1) == 1 {
		f := v.Byte()
		v.Assume('0' <= f && f <= '9')
		mant = append(mant, '.', f)
	}
	sign := [][]byte{nil, []byte("+"), []byte("-")}[v.Choose(0, 2)]
	e := byte('0' + v.Choose(0, 3))
	L := []int{1, 2, 8, 9, 10, 18, 19, 20, 21, 25, 40}[v.Choose(0, 10)]
	short := append(append(append(append([]byte{}, mant...), 'e'), sign...), e)
	long := append(append(append([]byte{}, mant...), 'E'), sign...)
	for i := 0; i < L; i++ {
		long = append(long, '0')
	}
	long = append(long, e)
	v.Observe("numeral", long)
	a, errA := NewNumber(short)
	b, errB := NewNumber(long)
	v.Assert((errA == nil) == (errB == nil), "C10/leading-zeros-in-exponent-change-the-verdict")
	if errA != nil || errB != nil {
		return
	}
	v.Assert(a.Cmp(b) == 0 && b.Cmp(a) == 0, "C10/leading-zeros-in-exponent-change-the-value")
	v.Assert(a.LengthOfFractionalPart() == b.LengthOfFractionalPart(), "C10/leading-zeros-in-exponent-change-the-value")
	v.Reach("C10/long-exponent")
}

var ZZHarnesses = map[string]func(){
	"ZZC10LongExp": ZZC10LongExp,
	"ZZC10One":     ZZC10One,
	"ZZC10Two":     ZZC10Two,
}

// ZZIsNumeral: a is an RFC 8259 numeral (exponent magnitude at most maxexp) - for harnesses of other packages.
func ZZIsNumeral(a []byte, maxexp int) bool {
	_, ok := zzParseNumeral(a, maxexp)
	return ok
}
