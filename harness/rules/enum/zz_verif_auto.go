//go:build verif

package enum

import (
	stdErrors "errors"

	"github.com/jsightapi/jsight-schema-go-library/bytes"
	"github.com/jsightapi/jsight-schema-go-library/errors"
	"github.com/jsightapi/jsight-schema-go-library/fs"
	"github.com/jsightapi/jsight-schema-go-library/internal/lexeme"
	"github.com/jsightapi/jsight-schema-go-library/zzverif/v"
)

func zzItoa(n int) string {
	if n < 10 {
		return string(rune('0' + n))
	}
	return zzItoa(n/10) + string(rune('0'+n%10))
}

// zzAutoKey names the control state of the enum-rule scanner (positions and the set of values
// seen so far are left out; the latter only decides whether a closing item is a duplicate).
func zzAutoKey(s *scanner) string {
	k := v.FuncName(s.step) + "/"
	for i := 0; i < s.returnToStep.Len(); i++ {
		k += v.FuncName(s.returnToStep.Get(i)) + ","
	}
	k += "/"
	for i := 0; i < s.stack.Len(); i++ {
		k += string(rune('a' + int(s.stack.Get(i).Type())))
	}
	k += "/"
	if s.annotation {
		k += "n"
	}
	if s.unfinishedLiteral {
		k += "u"
	}
	if s.hasTrailingCharacters {
		k += "t"
	}
	if s.index > 0 && int(s.index) <= len(s.data) && s.data[s.index-1] == ' ' {
		k += "s"
	}
	if s.lengthComputing && s.stack.Len() == 0 {
		// Length trims the blanks in front of the foreign byte by reading backwards: keep apart 0, 1, 2+
		nb := 0
		for nb < 2 && int(s.index)-1-nb >= 0 && bytes.IsBlank(s.data[int(s.index)-1-nb]) {
			nb++
		}
		k += "b" + zzItoa(nb)
	}
	return k
}

func zzAutoLexOK(lex lexeme.LexEvent, size int) bool {
	switch lex.Type() { //nolint:exhaustive
	case lexeme.LiteralEnd, lexeme.InlineAnnotationTextEnd, lexeme.MultiLineAnnotationTextEnd:
		b, e := int(lex.Begin()), int(lex.End())
		return 0 <= b && b <= e+1 && e+1 <= size
	}
	return true
}

// zzAutoDrive feeds bytes as Next does until more than upTo bytes are consumed. It returns the
// error raised (nil if none, errEOS included) and whether the scanner panicked.
func zzAutoDrive(s *scanner, upTo int) (err error, panicked bool, lexOK bool) {
	lexOK = true
	defer func() {
		if r := recover(); r != nil {
			panicked = true
		}
	}()
	for s.index < s.dataSize && int(s.index) < upTo {
		c := s.data[s.index]
		s.index++
		if _, e := s.step(c); e != nil {
			return e, false, lexOK
		}
		for len(s.finds) != 0 {
			lt, e := s.shiftFound()
			if e != nil {
				return e, false, lexOK
			}
			lex, e := s.processingFoundLexeme(lt)
			if e != nil {
				return e, false, lexOK
			}
			if !zzAutoLexOK(lex, len(s.data)) {
				lexOK = false
			}
		}
	}
	return nil, false, lexOK
}

// ZZEnumAuto: one byte from an abstract state of the enum-rule scanner (see ZZScanAuto of the
// schema scanner for the scheme): the scanner moves on, stops (end of the rule in length mode) or
// returns a DocumentError inside the text - at that very byte for an invalid character - and never
// panics or returns a bare error.
func ZZEnumAuto() {
	prefix := v.ParamBytes("prefix")
	length := v.Param("lengthmode", 0) != 0
	maxStack := v.Param("stack", 6)
	c := v.Byte()
	nla := v.Choose(0, 1)
	la := v.Bytes(nla)
	for _, b := range la {
		v.Assume(b < 0x80)
	}
	data := append(append(append([]byte{}, prefix...), c), la...)
	v.Observe("prefix", prefix)
	v.Observe("byte", c)
	v.Observe("lookahead", la)
	mk := func(b []byte) *scanner {
		if length {
			return newScanner(fs.NewFile("enum", b), scannerComputeLength)
		}
		return newScanner(fs.NewFile("enum", b))
	}
	s := mk(data)
	err, panicked, lexOK := zzAutoDrive(s, len(prefix))
	if err != nil || panicked {
		v.Reach("auto/lookahead-incompatible")
		return
	}
	v.Reach("auto/state-entered")
	start := int(s.index)
	// C14: in length mode, when the rule is complete (nothing open) and a foreign byte follows, Len is
	// the prefix without its trailing blanks. Judged on texts without comments, which end with the bracket.
	if length && s.stack.Len() == 0 && len(prefix) > 0 && !bytes.IsBlank(c) && c != '/' {
		want, slash := len(prefix), false
		for _, b := range prefix {
			if b == '/' {
				slash = true
			}
		}
		for want > 0 && bytes.IsBlank(prefix[want-1]) {
			want--
		}
		if !slash && want > 0 && prefix[want-1] == ']' {
			l, lerr := New("enum", data).Len()
			v.Reach("C14/auto-enum-len")
			v.Assert(lerr == nil, "C14/enum-len-error-on-complete-rule")
			if lerr == nil {
				v.Assert(int(l) == want, "C14/enum-len")
			}
		}
	}
	err, panicked, lexOK = zzAutoDrive(s, start+1)
	v.Assert(!panicked, "C07/enum-scanner-panic")
	if panicked {
		return
	}
	v.Assert(lexOK, "C07/enum-lexeme-outside-text")
	if err != nil {
		if stdErrors.Is(err, errEOS) {
			v.Reach("C07/enum-auto-stop")
			return
		}
		var de errors.DocumentError
		isDE := stdErrors.As(err, &de)
		v.Assert(isDE, "C07/enum-scanner-bare-error")
		if isDE {
			v.Reach("C07/enum-auto-refused")
			v.Assert(int(de.Index()) < len(data), "C17/enum-error-outside-input")
			if de.Code() == errors.ErrInvalidCharacter || de.Code() == errors.ErrEnumArrayExpected {
				v.Assert(int(de.Index()) == start, "C17/enum-scan-error-position")
			}
		}
		return
	}
	v.Reach("C07/enum-auto-consumed")
	consumed := int(s.index)

	if nla == 0 {
		// the text ends here: the real Next loop with the end-of-input rule
		s2 := mk(data)
		func() {
			defer func() {
				if r := recover(); r != nil {
					v.Fail("C07/enum-scanner-panic")
				}
			}()
			for {
				lex, e := s2.Next()
				if e != nil {
					if !stdErrors.Is(e, errEOS) {
						var de errors.DocumentError
						isDE := stdErrors.As(e, &de)
						v.Assert(isDE, "C07/enum-scanner-bare-error")
						if isDE {
							v.Assert(int(de.Index()) < len(data), "C17/enum-error-outside-input")
						}
					}
					break
				}
				if !zzAutoLexOK(lex, len(data)) {
					v.Fail("C07/enum-lexeme-outside-text")
				}
			}
		}()
	}
	if s.stack.Len() <= maxStack && consumed >= start+1 && consumed <= len(data) {
		v.Key(zzAutoKey(s) + "@@" + zzItoa(consumed-start))
	}
}
