//go:build verif

package enum

import (
	stdErrors "errors"
	"io"

	"github.com/jsightapi/jsight-schema-go-library/formats/json"
	"github.com/jsightapi/jsight-schema-go-library/fs"
	"github.com/jsightapi/jsight-schema-go-library/internal/lexeme"
	"github.com/jsightapi/jsight-schema-go-library/zzverif/v"
)

// zzScalar: position pos picks from a set of forms disjoint from the other position's, so that the
// list never contains a duplicate value (duplicates are rejected by the enum scanner by design).
func zzScalar(pos int) []byte {
	d := func(lo byte) byte {
		c := v.Byte()
		v.Assume(lo <= c && c <= '9')
		return c
	}
	switch v.Choose(0, 2)*2 + pos {
	case 0:
		return []byte("null")
	case 1:
		return []byte("true")
	case 2:
		return []byte{d('0')}
	case 3:
		return []byte{'-', d('1'), d('0')}
	case 4:
		return []byte{d('0'), '.', d('0')}
	}
	n := v.Choose(0, 2)
	out := []byte{'"'}
	for i := 0; i < n; i++ {
		switch v.Choose(0, 3) {
		case 0:
			c := v.Byte()
			v.Assume(c >= 0x20 && c < 0x7f && c != '"' && c != '\\')
			out = append(out, c)
		case 1:
			// every one-character escape of RFC 8259
			c := v.Byte()
			v.Assume(c == '"' || c == '\\' || c == '/' || c == 'b' || c == 'f' || c == 'n' || c == 'r' || c == 't')
			out = append(out, '\\', c)
		case 2:
			out = append(out, '\\', 'u')
			for k := 0; k < 4; k++ {
				h := v.Byte()
				v.Assume(('0' <= h && h <= '9') || ('a' <= h && h <= 'f') || ('A' <= h && h <= 'F'))
				out = append(out, h)
			}
		default:
			c := v.Byte()
			v.Assume(c >= 0x80)
			out = append(out, c)
		}
	}
	return append(out, '"')
}

// ZZC06Enum: an enum rule is a JSON array of scalars; the enum-rule scanner
// and the JSON document scanner deliver the same events (new lines aside).
func ZZC06Enum() {
	n := v.Choose(0, 2)
	text := []byte{'['}
	for i := 0; i < n; i++ {
		if i > 0 {
			text = append(text, ',')
			if v.Choose(0, 1) == 1 {
				c := v.Byte()
				v.Assume(c == ' ' || c == '\t' || c == '\n' || c == '\r')
				text = append(text, c)
			}
		}
		text = append(text, zzScalar(i)...)
	}
	text = append(text, ']')
	v.Observe("text", text)
	var want []lexeme.LexEvent
	doc := json.New("d", text)
	for i := 0; i < 64; i++ {
		lex, err := doc.NextLexeme()
		if err != nil {
			v.Assert(stdErrors.Is(err, io.EOF), "C06/valid-json-gives-error")
			break
		}
		want = append(want, lex)
	}
	sc := newScanner(fs.NewFile("e", text))
	var got []lexeme.LexEvent
	for i := 0; i < 64; i++ {
		lex, err := sc.Next()
		if err != nil {
			v.Assert(stdErrors.Is(err, errEOS), "C06/enum-scanner-rejects-plain-json-array")
			break
		}
		if lex.Type() == lexeme.NewLine {
			continue
		}
		got = append(got, lex)
	}
	v.Assert(len(got) == len(want), "C06/enum-event-count")
	if len(got) == len(want) {
		for i := range got {
			v.Assert(got[i].Type() == want[i].Type(), "C06/enum-event-type")
			v.Assert(got[i].Begin() == want[i].Begin() && got[i].End() == want[i].End(), "C06/enum-event-span")
		}
	}
	v.Reach("C06/enum")
}

// zzStrItem: a string item of up to max pieces (a printable byte, blanks included, an escaped blank,
// \u0020 / \u0061) with its decoded value.
func zzStrItem(max int) (lit, dec []byte) {
	lit = []byte{'"'}
	n := v.Choose(0, max)
	for i := 0; i < n; i++ {
		switch v.Choose(0, 3) {
		case 0:
			c := v.Byte()
			v.Assume(c >= 0x20 && c < 0x7f && c != '"' && c != '\\')
			lit, dec = append(lit, c), append(dec, c)
		case 1:
			c := v.Byte()
			v.Assume(c == 't' || c == 'n' || c == 'r')
			lit = append(lit, '\\', c)
			dec = append(dec, map[byte]byte{'t': '\t', 'n': '\n', 'r': '\r'}[c])
		case 2:
			lit, dec = append(lit, "\\u0020"...), append(dec, ' ')
		default:
			lit, dec = append(lit, "\\u0061"...), append(dec, 'a')
		}
	}
	return append(lit, '"'), dec
}

// ZZC06EnumStrings: two string items whose values differ (be it only in blanks at either end of the
// content) are not duplicates: the enum scanner reads the whole array like the JSON scanner; two
// spellings of one value are duplicates and end the scan with an error.
func ZZC06EnumStrings() {
	l1, d1 := zzStrItem(v.Param("pieces", 2))
	l2, d2 := zzStrItem(v.Param("pieces", 2))
	same := len(d1) == len(d2)
	for i := 0; same && i < len(d1); i++ {
		same = d1[i] == d2[i]
	}
	text := append(append(append([]byte{'['}, l1...), ','), l2...)
	text = append(text, ']')
	v.Observe("text", text)
	sc := newScanner(fs.NewFile("e", text))
	n := 0
	var serr error
	for i := 0; i < 16; i++ {
		lex, err := sc.Next()
		if err != nil {
			serr = err
			break
		}
		if lex.Type() != lexeme.NewLine {
			n++
		}
	}
	if same {
		v.Reach("C06/enum-duplicate-strings")
		v.Assert(!stdErrors.Is(serr, errEOS), "C06/enum-duplicate-value-accepted")
		return
	}
	v.Reach("C06/enum-distinct-strings")
	v.Assert(stdErrors.Is(serr, errEOS), "C06/enum-scanner-rejects-plain-json-array")
	want := 0
	doc := json.New("d", text)
	for i := 0; i < 16; i++ {
		if _, err := doc.NextLexeme(); err != nil {
			break
		}
		want++
	}
	v.Assert(n == want, "C06/enum-event-count")
}

var ZZHarnesses = map[string]func(){"ZZC06Enum": ZZC06Enum, "ZZEnumAuto": ZZEnumAuto, "ZZC06EnumStrings": ZZC06EnumStrings}
