//go:build verif

// Package v is the harness API of the gosym symbolic executor. Under the
// engine every function here is intercepted by name; compiled natively the
// functions replay a recorded vector of input values (file named by
// VERIF_REPLAY), so that a solver model becomes an ordinary Go run.
package v

import (
	"encoding/json"
	"fmt"
	"os"
	"reflect"
	"runtime"
	"sort"
	"strings"
	"sync"
	"sync/atomic"
)

type input struct {
	Name string `json:"name"`
	Kind string `json:"kind"`
	W    int    `json:"w"`
	V    uint64 `json:"v"`
}

type replay struct {
	Harness string            `json:"harness"`
	Label   string            `json:"label"`
	Inputs  []input           `json:"inputs"`
	Params  map[string]int    `json:"params"`
	PBytes  map[string][]byte `json:"pbytes"`
}

// Result of a native replay.
type Result struct {
	Failed   []string          `json:"failed"`  // labels of failed assertions
	Assumes  int               `json:"assumes"` // number of violated assumptions (model mismatch)
	Reached  []string          `json:"reached"`
	Observed map[string]string `json:"observed"`
	Panic    string            `json:"panic,omitempty"`
	Underrun bool              `json:"underrun,omitempty"`
	Keys     []string          `json:"keys,omitempty"`
}

var (
	cur replay
	pos int
	res Result
)

type assumeFailed struct{}

// Race mode (VERIF_RACE set, binary built with -race): the replay of a lock-discipline violation.
// The harness's probe function runs in a second goroutine while the recorded operations are
// replayed, so that the race detector sees the unordered accesses.
var (
	raceMode  = os.Getenv("VERIF_RACE") != ""
	probeStop atomic.Bool
	probeWG   sync.WaitGroup
)

// RaceProbe registers read-only traffic for race mode; a no-op under the engine and in plain replays.
func RaceProbe(f func()) {
	if !raceMode {
		return
	}
	probeWG.Add(1)
	go func() {
		defer probeWG.Done()
		for !probeStop.Load() {
			f()
			runtime.Gosched()
		}
	}()
}

func next(kind string) uint64 {
	if pos >= len(cur.Inputs) {
		res.Underrun = true
		return 0
	}
	x := cur.Inputs[pos]
	pos++
	if raceMode {
		runtime.Gosched()
	}
	return x.V
}

// Byte returns a fresh symbolic byte.
func Byte() byte { return byte(next("b")) }

// Bytes returns n fresh symbolic bytes.
func Bytes(n int) []byte {
	b := make([]byte, n)
	for i := range b {
		b[i] = byte(next("b"))
	}
	return b
}

// Int returns a fresh symbolic int in [lo,hi].
func Int(lo, hi int) int {
	x := int(int64(next("i")))
	if lo == hi {
		return lo // a degenerate range has no model value of its own
	}
	return x
}

// Choose returns a value in [lo,hi]; the engine forks one path per value.
func Choose(lo, hi int) int {
	x := int(int64(next("c")))
	if lo == hi {
		return lo // a degenerate range has no model value of its own
	}
	return x
}

// Bool returns a fresh symbolic bool.
func Bool() bool { return next("t") != 0 }

// Assume drops the path when cond does not hold.
func Assume(cond bool) {
	if !cond {
		res.Assumes++
		panic(assumeFailed{})
	}
}

// Assert states the property.
func Assert(cond bool, label string) {
	if !cond {
		res.Failed = append(res.Failed, label)
	}
}

// Fail is an unconditional violation.
func Fail(label string) { res.Failed = append(res.Failed, label) }

// Reach records a vacuity witness.
func Reach(label string) { res.Reached = append(res.Reached, label) }

// Observe records a rendered value for evidence and cross-replay comparison.
func Observe(label string, x interface{}) {
	if res.Observed == nil {
		res.Observed = map[string]string{}
	}
	res.Observed[label] = Show(x)
}

// Key reports an abstract state key (scanner automata exploration).
func Key(k string) { res.Keys = append(res.Keys, k) }

// Param returns a tier-dependent bound.
func Param(name string, def int) int {
	if x, ok := cur.Params[name]; ok {
		return x
	}
	return def
}

// ParamBytes returns a byte-string parameter chosen by the engine's automaton driver (a concrete
// prefix that reaches the state being explored).
func ParamBytes(name string) []byte {
	return append([]byte(nil), cur.PBytes[name]...)
}

// Concrete forks the path on the value of x (engine) and returns it.
func Concrete(x int) int { return x }

// ConcreteBytes forks until every byte of b is concrete.
func ConcreteBytes(b []byte) []byte { return b }

// FuncName returns a stable name for a function value (step functions).
func FuncName(f interface{}) string {
	if f == nil {
		return "nil"
	}
	rv := reflect.ValueOf(f)
	if rv.Kind() != reflect.Func || rv.IsNil() {
		return "nil"
	}
	n := runtime.FuncForPC(rv.Pointer()).Name()
	if i := strings.LastIndex(n, "/"); i >= 0 {
		n = n[i+1:]
	}
	n = strings.TrimSuffix(n, "-fm")
	return n
}

// MapOrder selects how the engine orders every following range-over-map: 0 insertion order,
// 1 all reversed, 2 all rotated by one, 3/4 reversed/rotated only at the site-th range executed
// after this call. Natively Go's own randomised order applies (no-op).
func MapOrder(mode, site int) {}

// MapSites returns the number of range-over-map statements executed since the last MapOrder call (0 natively).
func MapSites() int { return 0 }

// TypeOf returns the dynamic type of x as fmt's %T prints it.
func TypeOf(x interface{}) string { return fmt.Sprintf("%T", x) }

// IsSymbolic reports whether the engine is running (false natively).
func IsSymbolic() bool { return false }

// Show renders a value deterministically (used by Observe).
func Show(x interface{}) string {
	switch t := x.(type) {
	case nil:
		return "nil"
	case string:
		return fmt.Sprintf("%q", t)
	case []byte:
		return fmt.Sprintf("%q", string(t))
	case error:
		return "error"
	case bool, int, int8, int16, int32, int64, uint, uint8, uint16, uint32, uint64:
		return fmt.Sprintf("%v", t)
	case []string:
		return fmt.Sprintf("%q", t)
	case []int:
		return fmt.Sprintf("%v", t)
	}
	return fmt.Sprintf("%T", x)
}

// RunReplay is called from the generated native test. It runs the harness
// named in the replay file and writes the result JSON to VERIF_RESULT.
func RunReplay(harnesses map[string]func()) int {
	path := os.Getenv("VERIF_REPLAY")
	if path == "" {
		fmt.Println("VERIF_REPLAY not set")
		return 2
	}
	data, err := os.ReadFile(path)
	if err != nil {
		fmt.Println(err)
		return 2
	}
	var list []replay
	if err := json.Unmarshal(data, &list); err != nil {
		var one replay
		if err2 := json.Unmarshal(data, &one); err2 != nil {
			fmt.Println(err)
			return 2
		}
		list = []replay{one}
	}
	var out []Result
	rounds := 1
	if raceMode {
		rounds = 40
	}
	for _, r := range list {
		for round := 0; round < rounds; round++ {
			cur, pos, res = r, 0, Result{}
			probeStop.Store(false)
			name := r.Harness
			if i := strings.LastIndex(name, "."); i >= 0 {
				name = name[i+1:]
			}
			h, ok := harnesses[name]
			if !ok {
				var ks []string
				for k := range harnesses {
					ks = append(ks, k)
				}
				sort.Strings(ks)
				res.Panic = "unknown harness " + name + " (have " + strings.Join(ks, ",") + ")"
				out = append(out, res)
				break
			}
			func() {
				defer func() {
					if p := recover(); p != nil {
						if _, ok := p.(assumeFailed); ok {
							return
						}
						buf := make([]byte, 4096)
						buf = buf[:runtime.Stack(buf, false)]
						res.Panic = fmt.Sprintf("%v", p)
						if os.Getenv("VERIF_STACK") != "" {
							res.Panic += "\n" + string(buf)
						}
					}
				}()
				h()
			}()
			probeStop.Store(true)
			probeWG.Wait()
			if round == rounds-1 {
				out = append(out, res)
			}
		}
	}
	js, _ := json.MarshalIndent(out, "", " ")
	if rp := os.Getenv("VERIF_RESULT"); rp != "" {
		os.WriteFile(rp, js, 0o644)
	} else {
		fmt.Println(string(js))
	}
	return 0
}
