//go:build verif

// Package om holds the shared C19 harness logic: one operation from an
// arbitrary reachable state of an ordered map, compared with a reference
// insertion-ordered map.
package om

import (
	"errors"

	"github.com/jsightapi/jsight-schema-go-library/zzverif/v"
)

// OM adapts one of the generated ordered maps to string keys / string values.
type OM interface {
	Set(k, val string)
	Update(k string, fn func(string) string)
	GetValue(k string) string
	Get(k string) (string, bool)
	Has(k string) bool
	Len() int
	Delete(k string)
	Filter(fn func(k, val string) bool)
	Find(fn func(k, val string) bool) (string, string, bool)
	Each(fn func(k, val string) error) error
	EachSafe(fn func(k, val string))
	Map(fn func(k, val string) (string, error)) error
	JSON() (string, error)
	// Inv: the order list has no duplicates and holds exactly the keys of the data map.
	Inv() bool
	// WantJSON renders the expected JSON text for the given entries.
	WantJSON(keys, vals []string) string
}

type ref struct {
	keys []string
	vals []string
}

func (r *ref) find(k string) int {
	for i, kk := range r.keys {
		if kk == k {
			return i
		}
	}
	return -1
}

func (r *ref) set(k, val string) {
	if i := r.find(k); i >= 0 {
		r.vals[i] = val
		return
	}
	r.keys = append(r.keys, k)
	r.vals = append(r.vals, val)
}

func (r *ref) del(k string) {
	if i := r.find(k); i >= 0 {
		r.keys = append(append([]string{}, r.keys[:i]...), r.keys[i+1:]...)
		r.vals = append(append([]string{}, r.vals[:i]...), r.vals[i+1:]...)
	}
}

var errStop = errors.New("stop")

// states: every (subset, insertion order) over three keys
var states = [][]int{{}, {0}, {1}, {2}, {0, 1}, {1, 0}, {0, 2}, {2, 0}, {1, 2}, {2, 1},
	{0, 1, 2}, {0, 2, 1}, {1, 0, 2}, {1, 2, 0}, {2, 0, 1}, {2, 1, 0}}

const (
	opSet = iota
	opUpdate
	opGetValue
	opGet
	opHas
	opLen
	opDelete
	opFilter
	opFind
	opEach
	opEachSafe
	opMap
	opJSON
	nOps
)

func eqStrs(a, b []string) bool {
	if len(a) != len(b) {
		return false
	}
	for i := range a {
		if a[i] != b[i] {
			return false
		}
	}
	return true
}

// observe compares the whole observable state of m with r.
func observe(m OM, r *ref, keys []string, tag string) {
	v.Assert(m.Inv(), "C19/invariant"+tag)
	v.Assert(m.Len() == len(r.keys), "C19/len"+tag)
	var ks, vs []string
	m.EachSafe(func(k, val string) { ks = append(ks, k); vs = append(vs, val) })
	v.Assert(eqStrs(ks, r.keys), "C19/iteration-keys"+tag)
	v.Assert(eqStrs(vs, r.vals), "C19/iteration-values"+tag)
	for _, k := range keys {
		i := r.find(k)
		v.Assert(m.Has(k) == (i >= 0), "C19/has"+tag)
		got, ok := m.Get(k)
		v.Assert(ok == (i >= 0), "C19/get-ok"+tag)
		if i >= 0 {
			v.Assert(got == r.vals[i], "C19/get-value"+tag)
			v.Assert(m.GetValue(k) == r.vals[i], "C19/getvalue"+tag)
		}
	}
}

func pred(sel int, kx, vx string) func(k, val string) bool {
	return func(k, val string) bool {
		switch sel {
		case 0:
			return true
		case 1:
			return false
		case 2:
			return k == kx
		case 3:
			return k != kx
		case 4:
			return val == vx
		}
		return val != vx
	}
}

// step applies one operation (chosen by selectors) to both maps and checks
// its direct results.
func step(m OM, r *ref, keys []string, vals []string, concrete bool, tag string) {
	lo, hi := 0, nOps-2
	if concrete {
		lo, hi = 0, nOps-1
	}
	op := v.Choose(lo, hi)
	kx := keys[v.Choose(0, len(keys)-1)]
	vx := vals[v.Choose(0, len(vals)-1)]
	switch op {
	case opSet:
		m.Set(kx, vx)
		r.set(kx, vx)
	case opUpdate:
		calls := 0
		var seen string
		m.Update(kx, func(old string) string { calls++; seen = old; return vx })
		if i := r.find(kx); i >= 0 {
			v.Assert(calls == 1, "C19/update-calls"+tag)
			v.Assert(seen == r.vals[i], "C19/update-arg"+tag)
			r.vals[i] = vx
		} else {
			v.Assert(calls == 0, "C19/update-absent-calls"+tag)
		}
	case opGetValue, opGet, opHas, opLen:
		// covered by observe
	case opDelete:
		m.Delete(kx)
		r.del(kx)
	case opFilter:
		sel := v.Choose(0, 5)
		p := pred(sel, kx, vx)
		var vk, vv []string
		m.Filter(func(k, val string) bool { vk = append(vk, k); vv = append(vv, val); return p(k, val) })
		v.Assert(eqStrs(vk, r.keys), "C19/filter-visits-keys"+tag)
		v.Assert(eqStrs(vv, r.vals), "C19/filter-visits-values"+tag)
		nr := &ref{}
		for i, k := range r.keys {
			if p(k, r.vals[i]) {
				nr.keys = append(nr.keys, k)
				nr.vals = append(nr.vals, r.vals[i])
			}
		}
		r.keys, r.vals = nr.keys, nr.vals
	case opFind:
		sel := v.Choose(0, 5)
		p := pred(sel, kx, vx)
		fk, fv, ok := m.Find(p)
		want := -1
		for i, k := range r.keys {
			if p(k, r.vals[i]) {
				want = i
				break
			}
		}
		v.Assert(ok == (want >= 0), "C19/find-ok"+tag)
		if ok && want >= 0 {
			v.Assert(fk == r.keys[want] && fv == r.vals[want], "C19/find-item"+tag)
		}
	case opEach:
		stopAt := v.Choose(0, 3) // fail on the stopAt-th call (3 = never for <=3 entries)
		n := 0
		var vk []string
		err := m.Each(func(k, val string) error {
			vk = append(vk, k)
			n++
			if n-1 == stopAt {
				return errStop
			}
			return nil
		})
		wantN := len(r.keys)
		if stopAt < len(r.keys) {
			wantN = stopAt + 1
		}
		v.Assert((err != nil) == (stopAt < len(r.keys)), "C19/each-error"+tag)
		v.Assert(eqStrs(vk, r.keys[:wantN]), "C19/each-visits"+tag)
	case opEachSafe:
		// covered by observe
	case opMap:
		stopAt := v.Choose(0, 3)
		n := 0
		var vk, vv []string
		err := m.Map(func(k, val string) (string, error) {
			vk = append(vk, k)
			vv = append(vv, val)
			n++
			if n-1 == stopAt {
				return "", errStop
			}
			return vx, nil
		})
		wantN := len(r.keys)
		if stopAt < len(r.keys) {
			wantN = stopAt + 1
		}
		v.Assert((err != nil) == (stopAt < len(r.keys)), "C19/map-error"+tag)
		v.Assert(eqStrs(vk, r.keys[:wantN]), "C19/map-visits-keys"+tag)
		v.Assert(eqStrs(vv, r.vals[:wantN]), "C19/map-visits-values"+tag)
		for i := range r.keys {
			if i < stopAt {
				r.vals[i] = vx
			}
		}
	case opJSON:
		js, err := m.JSON()
		v.Assert(err == nil, "C19/json-error"+tag)
		if err == nil {
			v.Assert(js == m.WantJSON(r.keys, r.vals), "C19/json-text"+tag)
		}
	}
	v.Reach("C19/op")
}

// One: arbitrary reachable pre-state (built by Set, optionally followed by a
// Delete) over three symbolic pairwise-distinct keys, then `ops` operations.
func One(m OM, concrete bool) {
	var keys, vals []string
	if concrete {
		keys = []string{"a", "b", "c", "d"}
		vals = []string{"x", "y"}
	} else {
		kb := v.Bytes(4)
		v.Assume(kb[0] != kb[1] && kb[0] != kb[2] && kb[0] != kb[3] && kb[1] != kb[2] && kb[1] != kb[3] && kb[2] != kb[3])
		vb := v.Bytes(2)
		v.Assume(vb[0] != vb[1])
		// the zero value of the adapters renders as "", keep real values non-empty and distinct from it
		for i := 0; i < 4; i++ {
			keys = append(keys, string(kb[i:i+1]))
		}
		vals = []string{string(vb[0:1]), string(vb[1:2])}
	}
	if v.Param("nilvalue", 0) != 0 {
		// the zero value of the map's value type (a nil constraint, an empty AST node) is a value like any other
		vals = append(vals, "")
	}
	// read-only traffic from a second goroutine when a lock-discipline violation is replayed under the race detector
	v.RaceProbe(func() {
		m.Len()
		m.Has(keys[0])
		m.Get(keys[1])
		m.GetValue(keys[2])
		m.EachSafe(func(k, val string) {})
		m.Find(func(k, val string) bool { return false })
	})
	r := &ref{}
	st := states[v.Choose(0, len(states)-1)]
	for _, ki := range st {
		val := vals[v.Choose(0, len(vals)-1)]
		m.Set(keys[ki], val)
		r.set(keys[ki], val)
	}
	if v.Param("predelete", 0) != 0 && v.Choose(0, 1) == 1 {
		k := keys[v.Choose(0, 3)]
		m.Delete(k)
		r.del(k)
	}
	observe(m, r, keys, "/pre")
	n := v.Param("ops", 1)
	for i := 0; i < n; i++ {
		step(m, r, keys, vals, concrete, "")
		observe(m, r, keys, "")
	}
}
