//go:build verif

package gen

// ---- reference RFC 8259 recogniser over a byte slice of concrete length

func jsWS(c byte) bool { return c == ' ' || c == '\t' || c == '\n' || c == '\r' }
func jsDig(c byte) bool { return '0' <= c && c <= '9' }
func jsHex(c byte) bool {
	return jsDig(c) || ('a' <= c && c <= 'f') || ('A' <= c && c <= 'F')
}

func jsSkipWS(b []byte, i int) int {
	for i < len(b) && jsWS(b[i]) {
		i++
	}
	return i
}

// jsLit matches a keyword at i.
func jsLit(b []byte, i int, w string) (int, bool) {
	if i+len(w) > len(b) {
		return i, false
	}
	for k := 0; k < len(w); k++ {
		if b[i+k] != w[k] {
			return i, false
		}
	}
	return i + len(w), true
}

func jsString(b []byte, i int) (int, bool) {
	if i >= len(b) || b[i] != '"' {
		return i, false
	}
	i++
	for i < len(b) {
		c := b[i]
		switch {
		case c == '"':
			return i + 1, true
		case c == '\\':
			i++
			if i >= len(b) {
				return i, false
			}
			e := b[i]
			switch {
			case e == '"' || e == '\\' || e == '/' || e == 'b' || e == 'f' || e == 'n' || e == 'r' || e == 't':
				i++
			case e == 'u':
				if i+4 >= len(b) {
					return i, false
				}
				if !jsHex(b[i+1]) || !jsHex(b[i+2]) || !jsHex(b[i+3]) || !jsHex(b[i+4]) {
					return i, false
				}
				i += 5
			default:
				return i, false
			}
		case c < 0x20:
			return i, false
		default:
			i++
		}
	}
	return i, false
}

// jsNumber matches a number maximally at i.
func jsNumber(b []byte, i int) (int, bool) {
	if i < len(b) && b[i] == '-' {
		i++
	}
	if i >= len(b) {
		return i, false
	}
	if b[i] == '0' {
		i++
	} else if '1' <= b[i] && b[i] <= '9' {
		for i < len(b) && jsDig(b[i]) {
			i++
		}
	} else {
		return i, false
	}
	if i < len(b) && b[i] == '.' {
		i++
		if i >= len(b) || !jsDig(b[i]) {
			return i, false
		}
		for i < len(b) && jsDig(b[i]) {
			i++
		}
	}
	if i < len(b) && (b[i] == 'e' || b[i] == 'E') {
		i++
		if i < len(b) && (b[i] == '+' || b[i] == '-') {
			i++
		}
		if i >= len(b) || !jsDig(b[i]) {
			return i, false
		}
		for i < len(b) && jsDig(b[i]) {
			i++
		}
	}
	return i, true
}

func jsValue(b []byte, i int, depth int) (int, bool) {
	if i >= len(b) || depth > 40 {
		return i, false
	}
	c := b[i]
	switch {
	case c == '{':
		i = jsSkipWS(b, i+1)
		if i < len(b) && b[i] == '}' {
			return i + 1, true
		}
		for {
			var ok bool
			i, ok = jsString(b, i)
			if !ok {
				return i, false
			}
			i = jsSkipWS(b, i)
			if i >= len(b) || b[i] != ':' {
				return i, false
			}
			i = jsSkipWS(b, i+1)
			i, ok = jsValue(b, i, depth+1)
			if !ok {
				return i, false
			}
			i = jsSkipWS(b, i)
			if i >= len(b) {
				return i, false
			}
			if b[i] == '}' {
				return i + 1, true
			}
			if b[i] != ',' {
				return i, false
			}
			i = jsSkipWS(b, i+1)
		}
	case c == '[':
		i = jsSkipWS(b, i+1)
		if i < len(b) && b[i] == ']' {
			return i + 1, true
		}
		for {
			var ok bool
			i, ok = jsValue(b, i, depth+1)
			if !ok {
				return i, false
			}
			i = jsSkipWS(b, i)
			if i >= len(b) {
				return i, false
			}
			if b[i] == ']' {
				return i + 1, true
			}
			if b[i] != ',' {
				return i, false
			}
			i = jsSkipWS(b, i+1)
		}
	case c == '"':
		return jsString(b, i)
	case c == 't':
		return jsLit(b, i, "true")
	case c == 'f':
		return jsLit(b, i, "false")
	case c == 'n':
		return jsLit(b, i, "null")
	case c == '-' || jsDig(c):
		return jsNumber(b, i)
	}
	return i, false
}

// JSONText: the whole input is one JSON value surrounded by optional white space.
func JSONText(b []byte) bool {
	i := jsSkipWS(b, 0)
	i, ok := jsValue(b, i, 0)
	if !ok {
		return false
	}
	return jsSkipWS(b, i) == len(b)
}

// JSONPrefix: the input begins (after white space) with one complete JSON value.
func JSONPrefix(b []byte) (int, bool) {
	i := jsSkipWS(b, 0)
	return jsValue(b, i, 0)
}

