//go:build verif

// Package gen generates abstract JSight EXAMPLE trees and JSON documents from
// harness selectors, renders them to text (scalar contents may be symbolic
// bytes) and provides the reference oracles shared by the whole-stack harnesses.
package gen

import (
	"github.com/jsightapi/jsight-schema-go-library/zzverif/v"
)

type Kind int

const (
	KNull Kind = iota
	KBool
	KInt
	KFloat
	KStr
	KObj
	KArr
	NKinds
)

// Tri is a tri-state rule value: 0 = rule absent, 1 = true, 2 = false.
type Tri int

// Rule is an extra rule `name: value` rendered verbatim into the annotation.
type Rule struct {
	Name  string
	Value []byte
}

// Ex is a node of an abstract EXAMPLE.
type Ex struct {
	Kind     Kind
	Lit      []byte // scalar literal text
	Keys     [][]byte
	Kids     []*Ex
	Optional Tri
	Nullable Tri
	Any      bool
	Rules    []Rule // further rules, rendered after optional/nullable/type
	Note     []byte
	// filled by the renderer: offset of the value / key in the schema text
	Off    int
	KeyOff int
}

// Doc is a JSON document tree.
type Doc struct {
	Kind Kind
	Lit  []byte
	Keys [][]byte
	Kids []*Doc
	Off  int
	End  int // offset of the last byte of the value
	KeyOffs []int
}

// ---------- scalar literals with symbolic content

func digit(lo byte) byte {
	d := v.Byte()
	v.Assume(lo <= d && d <= '9')
	return d
}

// IntLit: forms D, DD, -D (digits symbolic).
func IntLit() []byte {
	switch v.Choose(0, 2) {
	case 0:
		return []byte{digit('0')}
	case 1:
		return []byte{digit('1'), digit('0')}
	}
	return []byte{'-', digit('1')}
}

// FloatLit: forms D.D and -D.DD with a non-zero last fraction digit (see the
// C10 finding about x.0).
func FloatLit() []byte {
	if v.Choose(0, 1) == 0 {
		return []byte{digit('0'), '.', digit('1')}
	}
	return []byte{'-', digit('0'), '.', digit('0'), digit('1')}
}

// plain string body byte: printable ASCII except quote and backslash.
func strByte() byte {
	c := v.Byte()
	v.Assume(c >= 0x20 && c < 0x7f && c != '"' && c != '\\')
	return c
}

// StrLit: "..." with 0..2 symbolic plain bytes.
func StrLit() []byte {
	n := v.Choose(0, 2)
	out := []byte{'"'}
	for i := 0; i < n; i++ {
		out = append(out, strByte())
	}
	return append(out, '"')
}

func BoolLit() []byte {
	if v.Choose(0, 1) == 0 {
		return []byte("true")
	}
	return []byte("false")
}

func ScalarLit(k Kind) []byte {
	switch k {
	case KNull:
		return []byte("null")
	case KBool:
		return BoolLit()
	case KInt:
		return IntLit()
	case KFloat:
		return FloatLit()
	case KStr:
		return StrLit()
	}
	return nil
}

// ---------- rendering the schema

type out struct{ b []byte }

func (o *out) s(x string) { o.b = append(o.b, x...) }
func (o *out) bs(x []byte) { o.b = append(o.b, x...) }

func triText(t Tri) string {
	if t == 1 {
		return "true"
	}
	return "false"
}

// Style selects a spelling of the schema text. The zero value is the base spelling.
type Style struct {
	NL         []byte // line end: "\n" (default), "\r\n" or "\r"
	Indent     []byte // one indentation unit (default two spaces)
	Multi      bool   // annotations as /* {...} */ instead of // {...}
	QuoteNames bool   // rule names in quotes
	TrailComma bool   // trailing comma inside the rule object
	Reverse    bool   // rules in reverse order
	Comment    []byte // text of a user comment (# ...) put on its own line before every property / element line and at the end of lines without annotation
	Block      bool   // the user comment is a ### block ### on its own line
	Pad        []byte // blanks inside the rule object after '{' and before '}'
	Tail       []byte // text of a user comment appended (as " #text") to every line that carries an inline annotation
}

var curStyle Style

func annotation(e *Ex) []byte { return annotationS(e, &curStyle) }

// annotationS returns the text of the annotation for the node, or nil.
func annotationS(e *Ex, st *Style) []byte {
	var o out
	n := 0
	var all []Rule
	if e.Any {
		all = append(all, Rule{"type", []byte(`"any"`)})
	}
	if e.Optional != 0 {
		all = append(all, Rule{"optional", []byte(triText(e.Optional))})
	}
	if e.Nullable != 0 {
		all = append(all, Rule{"nullable", []byte(triText(e.Nullable))})
	}
	all = append(all, e.Rules...)
	if st.Reverse {
		for i, j := 0, len(all)-1; i < j; i, j = i+1, j-1 {
			all[i], all[j] = all[j], all[i]
		}
	}
	for _, r := range all {
		if n > 0 {
			o.s(", ")
		}
		if st.QuoteNames {
			o.s("\"")
			o.s(r.Name)
			o.s("\"")
		} else {
			o.s(r.Name)
		}
		o.s(": ")
		o.bs(r.Value)
		n++
	}
	if n > 0 && st.TrailComma {
		o.s(",")
	}
	if n == 0 && e.Note == nil {
		return nil
	}
	var a out
	if st.Multi {
		a.s(" /*")
	} else {
		a.s(" //")
	}
	if n > 0 {
		a.s(" {")
		a.bs(st.Pad)
		a.bs(o.b)
		a.bs(st.Pad)
		a.s("}")
	}
	if st.Multi {
		if e.Note != nil {
			a.s(" - ")
			a.bs(e.Note)
		}
		a.s(" */")
		return a.b
	}
	if e.Note != nil {
		if n > 0 {
			a.s(" - ")
		} else {
			a.s(" ")
		}
		a.bs(e.Note)
	}
	if st.Tail != nil {
		a.s(" #")
		a.bs(st.Tail)
	}
	return a.b
}

func indent(o *out, d int) {
	for i := 0; i < d; i++ {
		if curStyle.Indent != nil {
			o.bs(curStyle.Indent)
		} else {
			o.s("  ")
		}
	}
}

func nl(o *out) {
	if curStyle.NL != nil {
		o.bs(curStyle.NL)
	} else {
		o.s("\n")
	}
}

// commentLine writes a user comment on its own line at depth d.
func commentLine(o *out, d int) {
	if curStyle.Comment == nil {
		return
	}
	indent(o, d)
	if curStyle.Block {
		o.s("###")
		o.bs(curStyle.Comment)
		o.s("###")
	} else {
		o.s("#")
		o.bs(curStyle.Comment)
	}
	nl(o)
}

// renderEx writes node e (value position) at nesting depth d; comma tells
// whether a comma follows the value.
func renderEx(o *out, e *Ex, d int, comma bool) {
	ann := annotation(e)
	e.Off = len(o.b)
	switch e.Kind {
	case KObj, KArr:
		open, close := "{", "}"
		if e.Kind == KArr {
			open, close = "[", "]"
		}
		if len(e.Kids) == 0 {
			o.s(open)
			o.s(close)
			if comma {
				o.s(",")
			}
			o.bs(ann)
			return
		}
		o.s(open)
		o.bs(ann)
		nl(o)
		for i, k := range e.Kids {
			commentLine(o, d+1)
			indent(o, d+1)
			if e.Kind == KObj {
				k.KeyOff = len(o.b)
				o.s("\"")
				o.bs(e.Keys[i])
				o.s("\": ")
			}
			renderEx(o, k, d+1, i < len(e.Kids)-1)
			nl(o)
		}
		indent(o, d)
		o.s(close)
		if comma {
			o.s(",")
		}
	default:
		o.bs(e.Lit)
		if comma {
			o.s(",")
		}
		o.bs(ann)
	}
}

// Schema renders the schema text of an example tree in the base spelling.
func Schema(e *Ex) []byte {
	curStyle = Style{}
	var o out
	renderEx(&o, e, 0, false)
	return o.b
}

// SchemaStyled renders the same abstract schema in another spelling.
func SchemaStyled(e *Ex, st Style) []byte {
	curStyle = st
	var o out
	renderEx(&o, e, 0, false)
	curStyle = Style{}
	return o.b
}

// ---------- rendering documents

// docBlanks, when set, yields the blanks written between two tokens.
var docBlanks func() []byte

func gap(o *out) {
	if docBlanks != nil {
		o.bs(docBlanks())
	}
}

func renderDoc(o *out, d *Doc) {
	d.Off = len(o.b)
	switch d.Kind {
	case KObj:
		o.s("{")
		d.KeyOffs = make([]int, len(d.Kids))
		for i, k := range d.Kids {
			if i > 0 {
				gap(o)
				o.s(",")
			}
			gap(o)
			d.KeyOffs[i] = len(o.b)
			o.s("\"")
			o.bs(d.Keys[i])
			o.s("\"")
			gap(o)
			o.s(":")
			gap(o)
			renderDoc(o, k)
		}
		gap(o)
		o.s("}")
	case KArr:
		o.s("[")
		for i, k := range d.Kids {
			if i > 0 {
				gap(o)
				o.s(",")
			}
			gap(o)
			renderDoc(o, k)
		}
		gap(o)
		o.s("]")
	default:
		o.bs(d.Lit)
	}
	d.End = len(o.b) - 1
}

func JSON(d *Doc) []byte {
	docBlanks = nil
	var o out
	renderDoc(&o, d)
	return o.b
}

// JSONSpaced renders with blanks() between tokens (and around the value).
func JSONSpaced(d *Doc, blanks func() []byte) []byte {
	docBlanks = blanks
	var o out
	gap(&o)
	renderDoc(&o, d)
	gap(&o)
	docBlanks = nil
	return o.b
}

// ExampleDoc converts an example tree into the document with the same value.
func ExampleDoc(e *Ex) *Doc {
	d := &Doc{Kind: e.Kind, Lit: e.Lit}
	for i, k := range e.Kids {
		if e.Kind == KObj {
			d.Keys = append(d.Keys, e.Keys[i])
		}
		d.Kids = append(d.Kids, ExampleDoc(k))
	}
	return d
}

// ---------- reference oracle of C01 (shape relation)

func bytesEq(a, b []byte) bool {
	if len(a) != len(b) {
		return false
	}
	for i := range a {
		if a[i] != b[i] {
			return false
		}
	}
	return true
}

func isOptional(e *Ex, optDefault bool) bool {
	switch e.Optional {
	case 1:
		return true
	case 2:
		return false
	}
	return optDefault
}

// ShapeOK is the statement of C01 as a function.
func ShapeOK(e *Ex, d *Doc, optDefault bool) bool {
	if e.Any {
		return true
	}
	if d.Kind == KNull {
		return e.Kind == KNull || e.Nullable == 1
	}
	switch e.Kind {
	case KNull:
		return false
	case KBool, KInt, KStr:
		return d.Kind == e.Kind
	case KFloat:
		return d.Kind == KFloat || d.Kind == KInt
	case KArr:
		if d.Kind != KArr {
			return false
		}
		if len(e.Kids) == 0 {
			return len(d.Kids) == 0
		}
		for i, k := range d.Kids {
			j := i
			if j >= len(e.Kids) {
				j = len(e.Kids) - 1
			}
			if !ShapeOK(e.Kids[j], k, optDefault) {
				return false
			}
		}
		return true
	case KObj:
		if d.Kind != KObj {
			return false
		}
		for i, k := range d.Kids {
			found := -1
			for j := range e.Keys {
				if bytesEq(e.Keys[j], d.Keys[i]) {
					found = j
					break
				}
			}
			if found < 0 || !ShapeOK(e.Kids[found], k, optDefault) {
				return false
			}
		}
		for j := range e.Keys {
			if isOptional(e.Kids[j], optDefault) {
				continue
			}
			present := false
			for i := range d.Keys {
				if bytesEq(e.Keys[j], d.Keys[i]) {
					present = true
				}
			}
			if !present {
				return false
			}
		}
		return true
	}
	return false
}

// FirstBad returns the offset (in the rendered document) of the first thing
// that breaks the shape relation, in document order: the start of a value of
// the wrong kind / a null that is not admitted, or the start of a key the
// example does not have. known=false when the first problem has no position
// of its own (a missing required key) or the document conforms.
func FirstBad(e *Ex, d *Doc, optDefault bool) (pos int, known bool) {
	if e.Any {
		return 0, false
	}
	if d.Kind == KNull {
		if e.Kind == KNull || e.Nullable == 1 {
			return 0, false
		}
		return d.Off, true
	}
	switch e.Kind {
	case KNull:
		return d.Off, true
	case KBool, KInt, KStr:
		if d.Kind != e.Kind {
			return d.Off, true
		}
		return 0, false
	case KFloat:
		if d.Kind != KFloat && d.Kind != KInt {
			return d.Off, true
		}
		return 0, false
	case KArr:
		if d.Kind != KArr {
			return d.Off, true
		}
		if len(e.Kids) == 0 {
			if len(d.Kids) > 0 {
				return d.Kids[0].Off, true
			}
			return 0, false
		}
		for i, k := range d.Kids {
			j := i
			if j >= len(e.Kids) {
				j = len(e.Kids) - 1
			}
			if p, ok := FirstBad(e.Kids[j], k, optDefault); ok {
				return p, true
			}
			if !ShapeOK(e.Kids[j], k, optDefault) {
				return 0, false
			}
		}
		return 0, false
	case KObj:
		if d.Kind != KObj {
			return d.Off, true
		}
		for i, k := range d.Kids {
			found := -1
			for j := range e.Keys {
				if bytesEq(e.Keys[j], d.Keys[i]) {
					found = j
					break
				}
			}
			if found < 0 {
				return d.KeyOffs[i], true
			}
			if p, ok := FirstBad(e.Kids[found], k, optDefault); ok {
				return p, true
			}
			if !ShapeOK(e.Kids[found], k, optDefault) {
				return 0, false
			}
		}
		return 0, false
	}
	return 0, false
}
