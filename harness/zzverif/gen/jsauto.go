//go:build verif

package gen

// JS is an incremental reference recogniser for RFC 8259 written from the
// grammar: a pushdown automaton fed one byte at a time. Step reports whether
// the bytes seen so far are still a viable prefix of some JSON text; Complete
// reports whether they are one complete JSON text.
type JS struct {
	Stack []byte // '{' or '[' per open container
	Mode  int
	Rest  string // remaining bytes of a keyword
	IsKey bool   // the string being read is an object key
}

const (
	jaValue      = iota // expecting a value (white space allowed)
	jaDone              // top-level value finished: only white space
	jaString            // inside a string
	jaEsc               // after a backslash
	jaU1
	jaU2
	jaU3
	jaU4
	jaMinus   // after '-'
	jaZero    // after a leading 0
	jaInt     // in the integer part
	jaDot     // after '.', a digit must follow
	jaFrac    // in the fraction
	jaE       // after e/E
	jaESign   // after the exponent sign, a digit must follow
	jaExp     // in the exponent
	jaWord    // inside true/false/null
	jaObjOpen // after '{': white space, '"' or '}'
	jaKeyEnd  // after a key: white space or ':'
	jaObjNext // after a value inside an object: white space, ',' or '}'
	jaObjKey  // after ',' in an object: white space or '"'
	jaArrOpen // after '[': white space, a value or ']'
	jaArrNext // after a value inside an array: white space, ',' or ']'
	// JSTrailing: a complete value was followed by a foreign byte and trailing text is allowed.
	JSTrailing
	// JSDead: some earlier byte could not continue the text.
	JSDead
)

func jaIsWS(c byte) bool { return c == ' ' || c == '\t' || c == '\n' || c == '\r' }

// afterValue moves to the state that follows a complete value.
func (a *JS) afterValue() {
	if len(a.Stack) == 0 {
		a.Mode = jaDone
	} else if a.Stack[len(a.Stack)-1] == '{' {
		a.Mode = jaObjNext
	} else {
		a.Mode = jaArrNext
	}
}

func (a *JS) beginValue(c byte) bool {
	switch {
	case c == '{':
		a.Stack = append(a.Stack, '{')
		a.Mode = jaObjOpen
	case c == '[':
		a.Stack = append(a.Stack, '[')
		a.Mode = jaArrOpen
	case c == '"':
		a.Mode, a.IsKey = jaString, false
	case c == '-':
		a.Mode = jaMinus
	case c == '0':
		a.Mode = jaZero
	case '1' <= c && c <= '9':
		a.Mode = jaInt
	case c == 't':
		a.Mode, a.Rest = jaWord, "rue"
	case c == 'f':
		a.Mode, a.Rest = jaWord, "alse"
	case c == 'n':
		a.Mode, a.Rest = jaWord, "ull"
	default:
		return false
	}
	return true
}

func (a *JS) closeContainer(c byte) bool {
	n := len(a.Stack)
	if n == 0 {
		return false
	}
	if (c == '}' && a.Stack[n-1] != '{') || (c == ']' && a.Stack[n-1] != '[') {
		return false
	}
	a.Stack = a.Stack[:n-1]
	a.afterValue()
	return true
}

// endNumber: the number ended before byte c; c is processed by the state after the value.
func (a *JS) endNumber(c byte) bool {
	a.afterValue()
	return a.Step(c)
}

// Step consumes one byte.
func (a *JS) Step(c byte) bool {
	dig := '0' <= c && c <= '9'
	hex := dig || ('a' <= c && c <= 'f') || ('A' <= c && c <= 'F')
	switch a.Mode {
	case JSTrailing:
		return true
	case JSDead:
		return false
	case jaValue:
		if jaIsWS(c) {
			return true
		}
		return a.beginValue(c)
	case jaDone:
		return jaIsWS(c)
	case jaString:
		switch {
		case c == '"':
			if a.IsKey {
				a.Mode = jaKeyEnd
			} else {
				a.afterValue()
			}
		case c == '\\':
			a.Mode = jaEsc
		case c < 0x20:
			return false
		}
		return true
	case jaEsc:
		switch c {
		case '"', '\\', '/', 'b', 'f', 'n', 'r', 't':
			a.Mode = jaString
		case 'u':
			a.Mode = jaU1
		default:
			return false
		}
		return true
	case jaU1, jaU2, jaU3:
		if !hex {
			return false
		}
		a.Mode++
		return true
	case jaU4:
		if !hex {
			return false
		}
		a.Mode = jaString
		return true
	case jaMinus:
		if c == '0' {
			a.Mode = jaZero
			return true
		}
		if '1' <= c && c <= '9' {
			a.Mode = jaInt
			return true
		}
		return false
	case jaZero, jaInt:
		switch {
		case dig && a.Mode == jaInt:
			return true
		case c == '.':
			a.Mode = jaDot
			return true
		case c == 'e' || c == 'E':
			a.Mode = jaE
			return true
		}
		return a.endNumber(c)
	case jaDot:
		if dig {
			a.Mode = jaFrac
			return true
		}
		return false
	case jaFrac:
		if dig {
			return true
		}
		if c == 'e' || c == 'E' {
			a.Mode = jaE
			return true
		}
		return a.endNumber(c)
	case jaE:
		if c == '+' || c == '-' {
			a.Mode = jaESign
			return true
		}
		if dig {
			a.Mode = jaExp
			return true
		}
		return false
	case jaESign:
		if dig {
			a.Mode = jaExp
			return true
		}
		return false
	case jaExp:
		if dig {
			return true
		}
		return a.endNumber(c)
	case jaWord:
		if len(a.Rest) == 0 || c != a.Rest[0] {
			return false
		}
		a.Rest = a.Rest[1:]
		if a.Rest == "" {
			a.afterValue()
		}
		return true
	case jaObjOpen:
		switch {
		case jaIsWS(c):
			return true
		case c == '"':
			a.Mode, a.IsKey = jaString, true
			return true
		case c == '}':
			return a.closeContainer(c)
		}
		return false
	case jaKeyEnd:
		if jaIsWS(c) {
			return true
		}
		if c == ':' {
			a.Mode = jaValue
			return true
		}
		return false
	case jaObjNext:
		switch {
		case jaIsWS(c):
			return true
		case c == ',':
			a.Mode = jaObjKey
			return true
		case c == '}':
			return a.closeContainer(c)
		}
		return false
	case jaObjKey:
		if jaIsWS(c) {
			return true
		}
		if c == '"' {
			a.Mode, a.IsKey = jaString, true
			return true
		}
		return false
	case jaArrOpen:
		if jaIsWS(c) {
			return true
		}
		if c == ']' {
			return a.closeContainer(c)
		}
		return a.beginValue(c)
	case jaArrNext:
		switch {
		case jaIsWS(c):
			return true
		case c == ',':
			a.Mode = jaValue
			return true
		case c == ']':
			return a.closeContainer(c)
		}
		return false
	}
	return false
}

// Complete: the bytes seen so far are one complete JSON text.
func (a *JS) Complete() bool {
	if len(a.Stack) != 0 {
		return false
	}
	switch a.Mode {
	case jaDone, jaZero, jaInt, jaFrac, jaExp, JSTrailing:
		return true
	}
	return false
}

// Blank: nothing but white space has been seen.
func (a *JS) Blank() bool { return a.Mode == jaValue && len(a.Stack) == 0 }

// Depth is the number of open containers.
func (a *JS) Depth() int { return len(a.Stack) }

// Key is a canonical name of the automaton state.
func (a *JS) Key() string {
	k := string([]byte{byte('A' + a.Mode)}) + ":" + string(a.Stack)
	if a.Mode == jaWord {
		k += ":" + a.Rest
	}
	if a.Mode >= jaString && a.Mode <= jaU4 && a.IsKey {
		k += ":k"
	}
	return k
}
