//go:build verif

package gen

import "github.com/jsightapi/jsight-schema-go-library/zzverif/v"

// Num is a reference decimal numeral without exponent: layout concrete, digits symbolic.
type Num struct {
	Neg    bool
	Digits []byte // integer digits followed by fraction digits
	NFra   int
}

// ParseNum parses -?D+(.D+)? whose layout (sign, point position) is concrete.
func ParseNum(b []byte) Num {
	var n Num
	i := 0
	if len(b) > 0 && b[0] == '-' {
		n.Neg = true
		i = 1
	}
	seenDot := false
	for ; i < len(b); i++ {
		if b[i] == '.' {
			seenDot = true
			continue
		}
		n.Digits = append(n.Digits, b[i])
		if seenDot {
			n.NFra++
		}
	}
	return n
}

func (n Num) fraDigit(p int) byte {
	k := len(n.Digits) - n.NFra + p
	if k < 0 || k >= len(n.Digits) {
		return '0'
	}
	return n.Digits[k]
}

func (n Num) intDigit(p int) byte {
	k := len(n.Digits) - 1 - n.NFra - p
	if k < 0 || k >= len(n.Digits) {
		return '0'
	}
	return n.Digits[k]
}

func (n Num) IsZero() bool {
	var acc byte
	for _, d := range n.Digits {
		acc |= d ^ '0'
	}
	return acc == 0
}

// FraLen: number of fractional digits after removing trailing zeros (branch-light).
func (n Num) FraLen() int {
	l := n.NFra
	for l > 0 && n.fraDigit(l-1) == '0' {
		l--
	}
	return l
}

func cmpAbs(a, b Num) int {
	ip := len(a.Digits) - a.NFra
	if q := len(b.Digits) - b.NFra; q > ip {
		ip = q
	}
	fp := a.NFra
	if b.NFra > fp {
		fp = b.NFra
	}
	res := int8(0)
	for p := fp - 1; p >= 0; p-- {
		x, y := a.fraDigit(p), b.fraDigit(p)
		if x < y {
			res = -1
		} else if x > y {
			res = 1
		}
	}
	for p := 0; p < ip; p++ {
		x, y := a.intDigit(p), b.intDigit(p)
		if x < y {
			res = -1
		} else if x > y {
			res = 1
		}
	}
	return int(res)
}

// CmpNum compares two numerals exactly: -1, 0, 1.
func CmpNum(a, b Num) int {
	c := cmpAbs(a, b)
	sa := a.Neg && !a.IsZero()
	sb := b.Neg && !b.IsZero()
	if sa != sb {
		if sa {
			return -1
		}
		return 1
	}
	if sa {
		return -c
	}
	return c
}

// NumLit: numeral with symbolic digits; form 0: D, 1: DD, 2: -D, 3: D.D, 4: -D.D, 5: D.DD, 6: DD.D
func NumLit(form int) []byte {
	d := func(lo byte) byte {
		x := v.Byte()
		v.Assume(lo <= x && x <= '9')
		return x
	}
	switch form {
	case 0:
		return []byte{d('0')}
	case 1:
		return []byte{d('1'), d('0')}
	case 2:
		return []byte{'-', d('0')}
	case 3:
		return []byte{d('0'), '.', d('0')}
	case 4:
		return []byte{'-', d('0'), '.', d('0')}
	case 5:
		return []byte{d('0'), '.', d('0'), d('0')}
	}
	return []byte{d('1'), d('0'), '.', d('0')}
}

// IsIntForm reports whether the form has no decimal point.
func IsIntForm(form int) bool { return form <= 2 }
