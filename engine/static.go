package main

// Static pass for the last clause of C07: at every error construction site
// the number of arguments agrees with the number of %s/%q placeholders of the
// code's template, and every declared error code has a template. The site
// list comes from the SSA of the current tree; the template table is read by
// *executing* the package initialiser of errors in the interpreter.

import (
	"fmt"
	"go/constant"
	"go/types"
	"sort"
	"strings"

	"golang.org/x/tools/go/ssa"
	"golang.org/x/tools/go/ssa/ssautil"
)

type arityReport struct {
	Sites       int      `json:"format_call_sites"`
	BareSites   int      `json:"bare_code_sites"`
	Dynamic     int      `json:"sites_with_non_constant_code"`
	Codes       int      `json:"declared_codes"`
	Templates   int      `json:"templates"`
	Problems    []string `json:"problems"`
}

func placeholders(t string) int { return strings.Count(t, "%s") + strings.Count(t, "%q") }

func staticErrorArity(env *Env) (*arityReport, error) {
	rep := &arityReport{}
	ep := env.pkgByPath[modPath+"/errors"]
	if ep == nil {
		return nil, fmt.Errorf("errors package not loaded")
	}
	formatFn := ep.Func("Format")
	codeT := ep.Type("ErrorCode")
	if formatFn == nil || codeT == nil {
		return nil, fmt.Errorf("errors.Format / ErrorCode not found")
	}
	// template table: execute the initialisers and read the global map
	r := &Run{Env: env, Params: map[string]int{}, Fuel: 5_000_000}
	ex := &Exec{env: env, tb: NewTermBuilder(), known: map[int]bool{}, globals: map[*ssa.Global]*Val{}, initDone: map[*ssa.Package]bool{},
		fuel: r.Fuel, onceDone: map[*Val]bool{}, pools: map[*Val][]Val{}, locks: map[*Val]int{}, run: r, witness: Witness{}, res: &PathResult{Observed: map[string]string{}}}
	var initErr interface{}
	func() {
		defer func() { initErr = recover() }()
		ex.runInits()
	}()
	if initErr != nil {
		return nil, fmt.Errorf("running initialisers: %v", initErr)
	}
	g, ok := ep.Members["errorFormat"].(*ssa.Global)
	if !ok {
		return nil, fmt.Errorf("errors.errorFormat not found")
	}
	m, _ := (*ex.global(g)).(*gomap)
	tmpl := map[int64]string{}
	if m != nil {
		for i, k := range m.keys {
			if ki, ok := k.(Int); ok {
				if s, ok := m.vals[i].(string); ok {
					tmpl[ki.signed()] = s
				}
			}
		}
	}
	rep.Templates = len(tmpl)
	// declared codes
	names := map[int64]string{}
	for name, mem := range ep.Members {
		if nc, ok := mem.(*ssa.NamedConst); ok && types.Identical(nc.Type(), codeT.Type()) {
			if v, ok := constant.Int64Val(constant.ToInt(nc.Value.Value)); ok {
				names[v] = name
				rep.Codes++
				if _, has := tmpl[v]; !has {
					rep.Problems = append(rep.Problems, fmt.Sprintf("error code %s (%d) has no message template", name, v))
				}
			}
		}
	}
	constCode := func(v ssa.Value) (int64, bool) {
		c, ok := v.(*ssa.Const)
		if !ok || c.Value == nil || !types.Identical(c.Type(), codeT.Type()) {
			return 0, false
		}
		return constant.Int64Val(constant.ToInt(c.Value))
	}
	variadicLen := func(v ssa.Value) (int, bool) {
		switch x := v.(type) {
		case *ssa.Const:
			return 0, true // nil slice
		case *ssa.Slice:
			if a, ok := x.X.(*ssa.Alloc); ok {
				if arr, ok := a.Type().(*types.Pointer).Elem().(*types.Array); ok {
					return int(arr.Len()), true
				}
			}
		}
		return 0, false
	}
	for fn := range ssautil.AllFunctions(env.prog) {
		p := fnPackage(fn)
		if p == nil || !env.inModule(p) {
			continue
		}
		path := p.Pkg.Path()
		if strings.Contains(path, "/zzverif") || strings.Contains(path, "/mocks") || strings.HasSuffix(path, "/test") || strings.Contains(fn.Name(), "ZZ") || strings.HasPrefix(fn.Name(), "zz") {
			continue
		}
		for _, b := range fn.Blocks {
			for _, in := range b.Instrs {
				pos := env.prog.Fset.Position(in.Pos()).String()
				switch x := in.(type) {
				case *ssa.Call:
					if x.Call.StaticCallee() != formatFn || len(x.Call.Args) != 2 {
						continue
					}
					code, okc := constCode(x.Call.Args[0])
					n, okn := variadicLen(x.Call.Args[1])
					if !okc || !okn {
						rep.Dynamic++
						continue
					}
					rep.Sites++
					t, has := tmpl[code]
					if !has {
						rep.Problems = append(rep.Problems, fmt.Sprintf("%s: errors.Format(%s, ...) uses a code without template", pos, names[code]))
					} else if placeholders(t) != n {
						rep.Problems = append(rep.Problems, fmt.Sprintf("%s: errors.Format(%s, %d args) but the template %q has %d placeholders", pos, names[code], n, t, placeholders(t)))
					}
				case *ssa.MakeInterface:
					code, okc := constCode(x.X)
					if !okc {
						continue
					}
					rep.BareSites++
					if t, has := tmpl[code]; has && placeholders(t) != 0 {
						rep.Problems = append(rep.Problems, fmt.Sprintf("%s: %s used as an error without arguments but its template %q needs %d", pos, names[code], t, placeholders(t)))
					}
				}
			}
		}
	}
	sort.Strings(rep.Problems)
	return rep, nil
}
