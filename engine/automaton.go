package main

// State-merged exploration of a scanner ("shape B" of DESIGN.md): the harness is
// one step of the scanner from an abstract control state. The state is reached by
// replaying a concrete witness prefix (v.ParamBytes("prefix")), the next byte(s)
// are symbolic, and the harness reports the abstract state it lands in with
// v.Key. The driver explores the graph of abstract states breadth first; every
// transition out of every reachable state (within the harness's depth bound) is
// decided by the solver for all 256 values of the byte, so the claim covers
// inputs of any length whose abstract states stay within the bound.

import (
	"fmt"
	"os"
	"sort"
	"strconv"
	"strings"
	"sync"
	"time"
)

func exploreAutomaton(base *Run, maxStates int) *Run {
	agg := &Run{Env: base.Env, Harness: base.Harness, Params: base.Params,
		Outcomes: map[string]int{}, Reached: map[string]int{}, Inconcl: map[string]int{},
		FnHits: map[string]int{}, Keys: map[string][]InputVal{}}
	t0 := time.Now()
	if maxStates <= 0 {
		maxStates = 20000
	}
	seen := map[string]bool{}
	frontier := [][]byte{nil}
	states := 0
	par := 8
	perRun := 2
	if base.Workers > 0 && base.Workers < 16 {
		par = (base.Workers + 1) / 2
	}
	depth := 0
	for len(frontier) > 0 {
		if states+len(frontier) > maxStates {
			frontier = frontier[:maxStates-states]
			agg.Truncated = true
		}
		runs := make([]*Run, len(frontier))
		var wg sync.WaitGroup
		sem := make(chan struct{}, par)
		for i, pre := range frontier {
			wg.Add(1)
			sem <- struct{}{}
			go func(i int, pre []byte) {
				defer wg.Done()
				defer func() { <-sem }()
				r := &Run{Env: base.Env, Harness: base.Harness, Params: base.Params, IsKnown: base.IsKnown, PBytes: map[string][]byte{"prefix": pre},
					Fuel: base.Fuel, Workers: perRun, Quiet: true, PanicIsOK: base.PanicIsOK, MergeOff: base.MergeOff,
					DiffEvery: base.DiffEvery, MaxPaths: base.MaxPaths}
				r.Explore()
				runs[i] = r
			}(i, pre)
		}
		wg.Wait()
		states += len(frontier)
		var next [][]byte
		for i, r := range runs {
			pre := frontier[i]
			agg.Paths += r.Paths
			agg.Asserts += r.Asserts
			agg.Instrs += r.Instrs
			agg.Queries += r.Queries
			agg.SolverDur += r.SolverDur
			agg.Decisions += r.Decisions
			for k, n := range r.Outcomes {
				agg.Outcomes[k] += n
			}
			for k, n := range r.Reached {
				agg.Reached[k] += n
			}
			for k, n := range r.Inconcl {
				agg.Inconcl[k] += n
			}
			for k, n := range r.FnHits {
				agg.FnHits[k] += n
			}
			if r.Truncated {
				agg.Truncated = true
			}
			agg.Violations = append(agg.Violations, r.Violations...)
			for _, pr := range r.Probes {
				if len(agg.Probes) < 40 {
					agg.Probes = append(agg.Probes, pr)
					agg.ProbePBytes = append(agg.ProbePBytes, r.PBytes)
				}
			}
			if len(agg.DiffSamples) < 24 {
				agg.DiffSamples = append(agg.DiffSamples, r.DiffSamples...)
			}
			if len(agg.Samples) < 12 && len(r.Samples) > 0 && i%5 == 0 {
				agg.Samples = append(agg.Samples, r.Samples[0])
				obs := map[string]string{}
				for k, v := range r.SampleObs[0] {
					obs[k] = v
				}
				obs["prefix"] = fmt.Sprintf("%q", pre)
				agg.SampleObs = append(agg.SampleObs, obs)
			}
			if len(agg.PassModels) < 48 && len(r.PassModels) > 0 && (states < 40 || i%9 == 0) {
				agg.PassModels = append(agg.PassModels, r.PassModels[0])
				agg.PassObs = append(agg.PassObs, r.PassObs[0])
				agg.PassPBytes = append(agg.PassPBytes, r.PBytes)
			}
			var ks []string
			for k := range r.Keys {
				ks = append(ks, k)
			}
			sort.Strings(ks)
			for _, kk := range ks {
				// "<key>@@<n>": only the first n symbolic bytes were consumed to reach the state
				k, take := kk, -1
				if j := strings.LastIndex(kk, "@@"); j >= 0 {
					if n, err := strconv.Atoi(kk[j+2:]); err == nil {
						k, take = kk[:j], n
					}
				}
				if seen[k] {
					continue
				}
				seen[k] = true
				np := append([]byte(nil), pre...)
				for _, in := range r.Keys[kk] {
					if in.Kind == "b" && take != 0 {
						np = append(np, byte(in.V))
						take--
					}
				}
				agg.Keys[k] = r.Keys[kk]
				next = append(next, np)
			}
		}
		depth++
		if !base.Quiet && os.Getenv("GOSYM_PROGRESS") != "" {
			fmt.Fprintf(os.Stderr, "automaton: wave %d: %d states explored, %d new, %d paths, %d violations\n", depth, states, len(next), agg.Paths, len(agg.Violations))
		}
		if agg.Truncated {
			break
		}
		if base.TimeLimit > 0 && time.Since(t0) > base.TimeLimit {
			agg.Truncated = true
			break
		}
		frontier = next
	}
	agg.Reached["automaton/states"] = states
	agg.Wall = time.Since(t0)
	return agg
}

// exploreCorpusLoop runs the harness once per text of the given kind of the repository's corpus
// (Param "case" = index) and aggregates the results.
func exploreCorpusLoop(base *Run, kind string) *Run {
	corpusSource()
	n := corpusKinds[kind]
	agg := &Run{Env: base.Env, Harness: base.Harness, Params: base.Params,
		Outcomes: map[string]int{}, Reached: map[string]int{}, Inconcl: map[string]int{},
		FnHits: map[string]int{}, Keys: map[string][]InputVal{}}
	t0 := time.Now()
	runs := make([]*Run, n)
	var wg sync.WaitGroup
	sem := make(chan struct{}, 8)
	for i := 0; i < n; i++ {
		wg.Add(1)
		sem <- struct{}{}
		go func(i int) {
			defer wg.Done()
			defer func() { <-sem }()
			params := map[string]int{}
			for k, v := range base.Params {
				params[k] = v
			}
			params["case"] = i
			r := &Run{Env: base.Env, Harness: base.Harness, Params: params, IsKnown: base.IsKnown, Fuel: base.Fuel, Workers: 2, Quiet: true,
				PanicIsOK: base.PanicIsOK, MergeOff: base.MergeOff, DiffEvery: base.DiffEvery, MaxPaths: base.MaxPaths}
			r.Explore()
			runs[i] = r
		}(i)
	}
	wg.Wait()
	for i, r := range runs {
		agg.Paths += r.Paths
		agg.Asserts += r.Asserts
		agg.Instrs += r.Instrs
		agg.Queries += r.Queries
		agg.SolverDur += r.SolverDur
		agg.Decisions += r.Decisions
		for k, n := range r.Outcomes {
			agg.Outcomes[k] += n
		}
		for k, n := range r.Reached {
			agg.Reached[k] += n
		}
		for k, n := range r.Inconcl {
			agg.Inconcl[k] += n
		}
		for k, n := range r.FnHits {
			agg.FnHits[k] += n
		}
		if r.Truncated {
			agg.Truncated = true
		}
		agg.Violations = append(agg.Violations, r.Violations...)
		for _, pr := range r.Probes {
			if len(agg.Probes) < 40 {
				agg.Probes = append(agg.Probes, pr)
				agg.ProbeParams = append(agg.ProbeParams, r.Params)
			}
		}
		if len(agg.DiffSamples) < 24 {
			agg.DiffSamples = append(agg.DiffSamples, r.DiffSamples...)
		}
		if len(agg.Samples) < 12 && len(r.Samples) > 0 && i%7 == 0 {
			agg.Samples = append(agg.Samples, r.Samples[0])
			agg.SampleObs = append(agg.SampleObs, r.SampleObs[0])
		}
	}
	agg.Reached["corpus/texts"] = n
	agg.Wall = time.Since(t0)
	return agg
}
