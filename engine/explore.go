package main

// Path exploration: decisions, witness-guided forking by re-execution, the
// parallel work list, and per-path results.

import (
	"fmt"
	"os"
	"runtime/debug"
	"sort"
	"strings"
	"sync"
	"time"

	"golang.org/x/tools/go/ssa"
)

// maxViolatingPaths: a harness stops exploring once this many paths ended in a violation that is not
// an instance of a listed known finding (those are expected on the unchanged tree, in any number).
const maxViolatingPaths = 20000

type workItem struct {
	prefix  []uint64
	witness Witness
}

type Violation struct {
	Label   string            `json:"label"`
	Harness string            `json:"harness"`
	Inputs  []InputVal        `json:"inputs"`
	Params  map[string]int    `json:"params"`
	PBytes  map[string][]byte `json:"pbytes,omitempty"`
	Observe map[string]string `json:"observe,omitempty"`
	Detail  string            `json:"detail,omitempty"`
}

type InputVal struct {
	Name string `json:"name"`
	Kind string `json:"kind"`
	W    int    `json:"w"`
	V    uint64 `json:"v"`
}

type PathResult struct {
	Outcome    string // "ok","violation","panic","unsupported","fuel","assume","unknown"
	Detail     string
	Violations []Violation
	Reached    []string
	Observed   map[string]string
	Asserts    int
	Instrs     int64
	Queries    int
	Inconcl    []string
	Sample     []InputVal
	FnHits     map[*ssa.Function]int
	Keys       []string // state keys reported by v.Key
}

// Run describes one harness exploration.
type Run struct {
	Env           *Env
	Harness       string // "pkgpath.FuncName"
	Params        map[string]int
	PBytes        map[string][]byte // byte-string parameters (automaton prefixes)
	Fuel          int64
	MaxPaths      int
	Workers       int
	MapOrder      string // "", "nondet"
	Quiet         bool
	PoolDrain     bool                  // sync.Pool.Get forks on "drained by GC"
	LockDisc      bool                  // lock-discipline checking of structs guarded by a mutex field
	IsKnown       func(*Violation) bool // instance of a listed known finding (does not count towards maxViolatingPaths)
	newViolations int
	PanicIsOK     bool // uncaught panic at top level is not a violation (harness handles it)
	MergeOff      bool
	TimeLimit     time.Duration

	// results
	mu          sync.Mutex
	Paths       int
	Outcomes    map[string]int
	Violations  []Violation
	Reached     map[string]int
	Inconcl     map[string]int
	Asserts     int
	Instrs      int64
	Queries     int
	SolverDur   time.Duration
	Decisions   int
	Samples     [][]InputVal
	SampleObs   []map[string]string
	FnHits      map[string]int
	Keys        map[string][]InputVal
	Truncated   bool
	Wall        time.Duration
	DiffEvery   int
	DiffSamples []DiffSample
	PassModels  [][]InputVal // sample of passing paths for native cross-replay
	PassObs     []map[string]string
	AllObs      []map[string]string // observations of the first few paths, whatever their inputs
	Probes      [][]InputVal        // witnesses of paths that ended unsupported / out of fuel
	ProbePBytes []map[string][]byte
	ProbeParams []map[string]int    // per probe, when the run aggregates several parameterisations
	PassPBytes  []map[string][]byte // aligned with PassModels when the run aggregates several parameterisations
}

func (r *Run) fn() *ssa.Function {
	i := strings.LastIndex(r.Harness, ".")
	pkg, name := r.Harness[:i], r.Harness[i+1:]
	p := r.Env.pkgByPath[pkg]
	if p == nil {
		panic("no package " + pkg)
	}
	f := p.Func(name)
	if f == nil {
		panic("no harness function " + r.Harness)
	}
	return f
}

// ---- decisions

func (ex *Exec) addPC(t *Term) {
	ex.pc = append(ex.pc, t)
	if t.Op == OpNot {
		ex.known[t.A[0].ID] = false
	} else {
		ex.known[t.ID] = true
	}
	fmt.Fprintf(&ex.tb.pending, "(assert %s)\n", t.s)
}

func (ex *Exec) flush() {
	if !ex.solOpen {
		ex.sol.Push()
		ex.solOpen = true
	}
	if ex.tb.pending.Len() > 0 {
		ex.sol.Send(ex.tb.pending.String())
		ex.tb.pending.Reset()
	}
}

// query checks satisfiability of PC ∧ extra.
func (ex *Exec) query(extra *Term, wantModel bool) (string, Witness) {
	// make sure extra is rendered/defined before flushing
	s := extra.s
	ex.flush()
	var vars []*Term
	if wantModel {
		vars = ex.tb.Vars
	}
	ex.nqueries++
	res, w := ex.sol.Check(s, vars)
	if res == "unknown" {
		ex.res.Inconcl = append(ex.res.Inconcl, "solver unknown")
	}
	return res, w
}

func (ex *Exec) setWitness(w Witness) {
	ex.witness = w
	ex.tb.BumpEpoch()
}

func (ex *Exec) decide(c Bool) bool {
	if c.T == nil {
		return c.C
	}
	t := c.T
	if k, ok := ex.known[t.ID]; ok {
		return k
	}
	if t.Op == OpNot {
		if k, ok := ex.known[t.A[0].ID]; ok {
			return !k
		}
	}
	k := len(ex.taken)
	if k < len(ex.prefix) {
		d := ex.prefix[k] != 0
		ex.taken = append(ex.taken, ex.prefix[k])
		if d {
			ex.addPC(t)
		} else {
			ex.addPC(ex.tb.Not(t))
		}
		return d
	}
	ex.run.noteDecision()
	wv, ok := ex.tb.Eval(t, ex.witness)
	var d bool
	if ok {
		d = wv != 0
		other := t
		if d {
			other = ex.tb.Not(t)
		}
		res, model := ex.query(other, true)
		if res == "sat" {
			alt := append(append([]uint64(nil), ex.taken...), b2u(!d))
			ex.pending = append(ex.pending, workItem{prefix: alt, witness: model})
		}
	} else {
		// cannot evaluate (uninterpreted function): ask the solver for both sides
		resT, mT := ex.query(t, true)
		resF, mF := ex.query(ex.tb.Not(t), true)
		switch {
		case resT == "sat" && resF == "sat":
			alt := append(append([]uint64(nil), ex.taken...), 0)
			ex.pending = append(ex.pending, workItem{prefix: alt, witness: mF})
			d = true
			ex.setWitness(mT)
		case resT == "sat":
			d = true
			ex.setWitness(mT)
		case resF == "sat":
			d = false
			ex.setWitness(mF)
		default:
			panic(pathEnd{"infeasible"})
		}
	}
	ex.taken = append(ex.taken, b2u(d))
	if d {
		ex.addPC(t)
	} else {
		ex.addPC(ex.tb.Not(t))
	}
	return d
}

// choose concretises a symbolic integer: one path per feasible value.
func (ex *Exec) choose(i Int) uint64 {
	if !i.sym() {
		return i.C
	}
	t := i.T
	k := len(ex.taken)
	if k < len(ex.prefix) {
		v := ex.prefix[k]
		ex.taken = append(ex.taken, v)
		ex.addPC(ex.tb.Eq(t, ex.tb.Const(v, t.W)))
		return v
	}
	ex.run.noteDecision()
	v, ok := ex.tb.Eval(t, ex.witness)
	if !ok {
		res, m := ex.query(ex.tb.True, true)
		if res != "sat" {
			panic(pathEnd{"infeasible"})
		}
		ex.setWitness(m)
		v, _ = ex.tb.Eval(t, ex.witness)
	}
	// enumerate the other feasible values
	excl := ex.tb.Not(ex.tb.Eq(t, ex.tb.Const(v, t.W)))
	for n := 0; ; n++ {
		if n > 4096 {
			panic(unsupported{"choose: too many feasible values"})
		}
		res, model := ex.query(excl, true)
		if res != "sat" {
			break
		}
		ex.tb.BumpEpoch()
		ov, _ := ex.tb.Eval(t, model)
		ex.tb.BumpEpoch()
		alt := append(append([]uint64(nil), ex.taken...), ov)
		ex.pending = append(ex.pending, workItem{prefix: alt, witness: model})
		excl = ex.tb.And(excl, ex.tb.Not(ex.tb.Eq(t, ex.tb.Const(ov, t.W))))
	}
	ex.taken = append(ex.taken, v)
	ex.addPC(ex.tb.Eq(t, ex.tb.Const(v, t.W)))
	return v
}

// assume restricts the path to c; ends the path if infeasible.
func (ex *Exec) assume(c Bool) {
	if c.T == nil {
		if !c.C {
			panic(pathEnd{"assume"})
		}
		return
	}
	if k, ok := ex.known[c.T.ID]; ok {
		if !k {
			panic(pathEnd{"assume"})
		}
		return
	}
	wv, ok := ex.tb.Eval(c.T, ex.witness)
	if !ok || wv == 0 {
		res, m := ex.query(c.T, true)
		if res != "sat" {
			panic(pathEnd{"assume"})
		}
		ex.setWitness(m)
	}
	ex.addPC(c.T)
}

func (ex *Exec) inputValues(w Witness) []InputVal {
	out := make([]InputVal, len(ex.inputs))
	for i, in := range ex.inputs {
		out[i] = InputVal{Name: in.Name, Kind: in.Kind, W: in.W, V: w[in.Name] & maskw1(in.W)}
	}
	return out
}

func (ex *Exec) violation(label, detail string, w Witness) {
	v := Violation{Label: label, Harness: ex.run.Harness, Inputs: ex.inputValues(w), Params: ex.run.Params, PBytes: ex.run.PBytes, Detail: detail}
	if len(ex.obs) > 0 {
		v.Observe = ex.renderObs(w)
	}
	ex.res.Violations = append(ex.res.Violations, v)
}

// assert checks that c holds for every input following this path.
func (ex *Exec) assert(c Bool, label string) {
	ex.res.Asserts++
	if c.T == nil {
		if !c.C {
			ex.violation(label, "", ex.witness)
			panic(pathEnd{"violation"})
		}
		return
	}
	if k, ok := ex.known[c.T.ID]; ok && k {
		return
	}
	wv, ok := ex.tb.Eval(c.T, ex.witness)
	if ok && wv == 0 {
		ex.violation(label, "", ex.witness)
		ex.assume(c) // continue with the inputs for which the assertion holds
		return
	}
	res, m := ex.query(ex.tb.Not(c.T), true)
	switch res {
	case "sat":
		ex.violation(label, "", m)
		ex.assume(c)
	case "unsat":
		ex.addPC(c.T)
	}
}

// ---- running one path

func (r *Run) noteDecision() {}

func (r *Run) runPath(sol *Solver, item workItem) (res *PathResult, pending []workItem) {
	ex := &Exec{
		env: r.Env, tb: NewTermBuilder(), sol: sol, prefix: item.prefix, witness: item.witness,
		known: map[int]bool{}, globals: map[*ssa.Global]*Val{}, initDone: map[*ssa.Package]bool{},
		fuel: r.Fuel, onceDone: map[*Val]bool{}, pools: map[*Val][]Val{}, locks: map[*Val]int{}, lockDisc: r.LockDisc, run: r,
		mergeOff: r.MergeOff, fnHits: map[*ssa.Function]int{},
	}
	if ex.witness == nil {
		ex.witness = Witness{}
	}
	res = &PathResult{Observed: map[string]string{}}
	ex.res = res
	func() {
		defer func() {
			if rec := recover(); rec != nil {
				switch x := rec.(type) {
				case goPanic:
					res.Outcome = "panic"
					res.Detail = ex.panicString(x.v) + " @" + ex.trace
					if !r.PanicIsOK {
						ex.violation("uncaught-panic", res.Detail, ex.witness)
					}
				case unsupported:
					res.Outcome = "unsupported"
					res.Detail = x.msg + " @" + ex.trace
					res.Inconcl = append(res.Inconcl, "unsupported: "+x.msg+" @"+ex.trace)
				case fuelOut:
					if x.what == "call depth" {
						// unbounded recursion ends a Go program with a fatal stack overflow that no caller can
						// recover; reported as a panic and confirmed (or not) by the native replay
						res.Outcome = "panic"
						res.Detail = "stack overflow (call depth > 3000) @" + ex.trace
						ex.violation("uncaught-panic", res.Detail, ex.witness)
						break
					}
					res.Outcome = "fuel"
					res.Detail = x.what
					res.Inconcl = append(res.Inconcl, "fuel: "+x.what)
				case pathEnd:
					res.Outcome = x.reason
				default:
					res.Outcome = "unsupported"
					res.Detail = fmt.Sprintf("engine error: %v\n%s", rec, debug.Stack())
					res.Inconcl = append(res.Inconcl, "engine error: "+fmt.Sprint(rec))
				}
			}
		}()
		ex.runInits()
		ex.call(r.fn(), nil, nil, nil)
		res.Outcome = "ok"
	}()
	if ex.solOpen {
		sol.Pop()
	}
	res.Instrs = ex.instrs
	res.Queries = ex.nqueries
	res.Sample = ex.inputValues(ex.witness)
	res.Observed = ex.renderObs(ex.witness)
	res.FnHits = ex.fnHits
	return res, ex.pending
}

func (ex *Exec) panicString(v Val) string {
	switch x := v.(type) {
	case iface:
		if x.t == nil {
			return "panic(nil)"
		}
		switch s := x.v.(type) {
		case string:
			return x.t.String() + ": " + s
		case *Val:
			if s != nil {
				if st, ok := (*s).(structure); ok && len(st) == 1 {
					if m, ok := st[0].(string); ok {
						return m
					}
				}
			}
		}
		return x.t.String() + ": " + showVal(x.v)
	}
	return showVal(v)
}

// Explore runs the harness over all paths.
func (r *Run) Explore() {
	t0 := time.Now()
	if r.Workers <= 0 {
		r.Workers = 16
	}
	if r.Fuel == 0 {
		r.Fuel = 5_000_000
	}
	r.Outcomes = map[string]int{}
	r.Reached = map[string]int{}
	r.Inconcl = map[string]int{}
	r.FnHits = map[string]int{}
	r.Keys = map[string][]InputVal{}
	var queue []workItem
	queue = append(queue, workItem{})
	var wg sync.WaitGroup
	cond := sync.NewCond(&r.mu)
	active := 0
	stop := false
	deadline := time.Time{}
	if r.TimeLimit > 0 {
		deadline = t0.Add(r.TimeLimit)
	}
	for w := 0; w < r.Workers; w++ {
		wg.Add(1)
		go func() {
			defer wg.Done()
			var sol *Solver
			defer func() {
				if sol != nil {
					r.mu.Lock()
					r.DiffSamples = append(r.DiffSamples, sol.Samples...)
					r.mu.Unlock()
					sol.Close()
				}
			}()
			for {
				r.mu.Lock()
				for len(queue) == 0 && active > 0 && !stop {
					cond.Wait()
				}
				if stop || (len(queue) == 0 && active == 0) {
					r.mu.Unlock()
					cond.Broadcast()
					return
				}
				item := queue[len(queue)-1]
				queue = queue[:len(queue)-1]
				active++
				r.mu.Unlock()
				if sol == nil {
					sol = NewSolver()
					sol.SampleEvery = r.DiffEvery
				}
				q0, d0 := sol.Queries, sol.Dur
				res, pend := r.runPath(sol, item)
				r.mu.Lock()
				active--
				queue = append(queue, pend...)
				r.Paths++
				r.Outcomes[res.Outcome]++
				r.Asserts += res.Asserts
				r.Instrs += res.Instrs
				r.Queries += sol.Queries - q0
				r.SolverDur += sol.Dur - d0
				for _, l := range res.Reached {
					r.Reached[l]++
				}
				for _, l := range res.Inconcl {
					r.Inconcl[l]++
				}
				if (res.Outcome == "unsupported" || res.Outcome == "fuel") && len(r.Probes) < 40 {
					r.Probes = append(r.Probes, res.Sample)
				}
				if res.Outcome == "unsupported" || res.Outcome == "fuel" {
					if r.Inconcl[res.Outcome+": "+res.Detail] <= 1 && !r.Quiet {
						fmt.Fprintf(os.Stderr, "  [%s] %s: %s\n", r.Harness, res.Outcome, res.Detail)
					}
				}
				r.Violations = append(r.Violations, res.Violations...)
				for fn, n := range res.FnHits {
					r.FnHits[fn.String()] += n
				}
				if len(r.AllObs) < 4 && res.Observed != nil {
					r.AllObs = append(r.AllObs, res.Observed)
				}
				for _, k := range res.Keys {
					if _, ok := r.Keys[k]; !ok {
						r.Keys[k] = res.Sample
					}
				}
				if res.Outcome == "ok" && len(res.Sample) > 0 {
					if len(r.Samples) < 8 {
						r.Samples = append(r.Samples, res.Sample)
						r.SampleObs = append(r.SampleObs, res.Observed)
					}
					if len(r.PassModels) < 64 && (r.Paths%7 == 0 || len(r.PassModels) < 4) {
						r.PassModels = append(r.PassModels, res.Sample)
						r.PassObs = append(r.PassObs, res.Observed)
					}
				}
				if r.MaxPaths > 0 && r.Paths >= r.MaxPaths && len(queue) > 0 {
					r.Truncated = true
					stop = true
				}
				for i := range res.Violations {
					if r.IsKnown == nil || !r.IsKnown(&res.Violations[i]) {
						r.newViolations++
					}
				}
				if r.newViolations >= maxViolatingPaths && len(queue) > 0 {
					// the verdict is settled; the rest of the space would only add more of the same
					r.Truncated = true
					stop = true
				}
				if !deadline.IsZero() && time.Now().After(deadline) && len(queue) > 0 {
					r.Truncated = true
					stop = true
				}
				r.mu.Unlock()
				cond.Broadcast()
			}
		}()
	}
	done := make(chan struct{})
	if os.Getenv("GOSYM_PROGRESS") != "" {
		go func() {
			tk := time.NewTicker(5 * time.Second)
			defer tk.Stop()
			for {
				select {
				case <-done:
					return
				case <-tk.C:
					r.mu.Lock()
					fmt.Fprintf(os.Stderr, "  .. %s paths=%d queue=%d active=%d queries=%d viol=%d %.0fs\n", r.Harness[strings.LastIndex(r.Harness, ".")+1:], r.Paths, len(queue), active, r.Queries, len(r.Violations), time.Since(t0).Seconds())
					r.mu.Unlock()
				}
			}
		}()
	}
	wg.Wait()
	close(done)
	r.Wall = time.Since(t0)
}

func (r *Run) Summary() string {
	var ks []string
	for k, v := range r.Outcomes {
		ks = append(ks, fmt.Sprintf("%s=%d", k, v))
	}
	sort.Strings(ks)
	return fmt.Sprintf("%s: paths=%d [%s] asserts=%d queries=%d solver=%.1fs instrs=%d wall=%.1fs violations=%d inconclusive=%d",
		r.Harness, r.Paths, strings.Join(ks, " "), r.Asserts, r.Queries, r.SolverDur.Seconds(), r.Instrs, r.Wall.Seconds(), len(r.Violations), len(r.Inconcl))
}

// orderMapIter applies the map-iteration order selected by the harness through
// v.MapOrder(mode, site): 0 insertion order (default); 1 every range reversed;
// 2 every range rotated by one; 3 / 4 the same but only at the site-th range
// executed since the call (all others in insertion order). The run-level mode
// "nondet" (all permutations at every site) is kept for small experiments.
func (ex *Exec) orderMapIter(it *mapIter) {
	n := len(it.keys)
	site := ex.mapSites
	ex.mapSites++
	if n < 2 {
		return
	}
	rev := func() {
		for i, j := 0, n-1; i < j; i, j = i+1, j-1 {
			it.keys[i], it.keys[j] = it.keys[j], it.keys[i]
			it.vals[i], it.vals[j] = it.vals[j], it.vals[i]
		}
	}
	rot := func() {
		it.keys = append(append([]Val(nil), it.keys[1:]...), it.keys[0])
		it.vals = append(append([]Val(nil), it.vals[1:]...), it.vals[0])
	}
	switch ex.mapMode {
	case 1:
		rev()
		return
	case 2:
		rot()
		return
	case 3:
		if site == ex.mapSite {
			rev()
		}
		return
	case 4:
		if site == ex.mapSite {
			rot()
		}
		return
	}
	if ex.run.MapOrder != "nondet" {
		return
	}
	pick := func(k int) int { // symbolic selector in [0,k)
		t := ex.fresh("ord", 8)
		ex.assume(ex.mkB(ex.tb.Bin(OpUlt, t, ex.tb.Const(uint64(k), 8))))
		return int(ex.choose(Int{W: 8, T: t}))
	}
	if n <= 4 {
		for i := 0; i < n-1; i++ {
			j := i + pick(n-i)
			it.keys[i], it.keys[j] = it.keys[j], it.keys[i]
			it.vals[i], it.vals[j] = it.vals[j], it.vals[i]
		}
		return
	}
	k := pick(2 * n)
	r, rv := k%n, k >= n
	keys := append(append([]Val(nil), it.keys[r:]...), it.keys[:r]...)
	vals := append(append([]Val(nil), it.vals[r:]...), it.vals[:r]...)
	if rv {
		for i, j := 0, n-1; i < j; i, j = i+1, j-1 {
			keys[i], keys[j] = keys[j], keys[i]
			vals[i], vals[j] = vals[j], vals[i]
		}
	}
	it.keys, it.vals = keys, vals
}
