package main

// The symbolic interpreter for go/ssa.

import (
	"fmt"
	"go/token"
	"go/types"
	"os"
	"reflect"
	"strings"

	"golang.org/x/tools/go/ssa"
)

type inputRec struct {
	Name string
	W    int
	Kind string // "byte","int","bool"
}

// noNativeField switches the native-field view off (used to test the probing of unfinished paths).
var noNativeField = os.Getenv("GOSYM_NONATIVEFIELD") != ""

type frame struct {
	cf        *cfunc
	regs      []Val
	block     *cblock
	prev      *cblock
	phiOver   []Val // values for the phis of `block` computed by region merging (nil: normal)
	defers    []deferred
	panicking bool
	panicVal  Val
	result    Val
	caller    *frame
	sp, dep   int
}

type deferred struct {
	fn   Val
	args []Val
	// invoke-mode
	method *types.Func
	recv   Val
}

type Exec struct {
	env          *Env
	tb           *TermBuilder
	sol          *Solver
	solOpen      bool
	prefix       []uint64
	taken        []uint64
	witness      Witness
	pending      []workItem
	pc           []*Term
	known        map[int]bool
	globals      map[*ssa.Global]*Val
	initDone     map[*ssa.Package]bool
	instrs       int64
	fuel         int64
	depth        int
	nsym         int
	inputs       []inputRec
	onceDone     map[*Val]bool
	pools        map[*Val][]Val
	locks        map[*Val]int
	lockDisc     bool            // lock discipline checking (lockdisc.go)
	guardOf      map[*Val]*Val   // guarded field address -> its mutex
	guardObj     map[*gomap]*Val // map held by a guarded field -> its mutex
	lockSeen     map[string]bool
	canInterpret func(string) bool // set per intrinsic call: may the current function be run from SSA instead
	guardType    map[*Val]types.Type
	run          *Run
	res          *PathResult
	nqueries     int
	mergeOff     bool
	fnHits       map[*ssa.Function]int
	opaqueN      int
	ptrIDs       map[*Val]int
	stack        []*ssa.Function
	trace        string
	mapMode      int
	mapSite      int
	mapSites     int
	obs          []obsRec
}

func (ex *Exec) fresh(kind string, w int) *Term {
	ex.nsym++
	name := fmt.Sprintf("%s!%d", kind, ex.nsym)
	return ex.tb.Var(name, w)
}

func (ex *Exec) newInput(kind string, w int) *Term {
	t := ex.fresh(kind, w)
	ex.inputs = append(ex.inputs, inputRec{Name: t.Name, W: w, Kind: kind})
	return t
}

// ---- terms of values

func (ex *Exec) it(i Int) *Term {
	if i.T != nil {
		return i.T
	}
	return ex.tb.Const(i.C, i.W)
}

func (ex *Exec) bt(b Bool) *Term {
	if b.T != nil {
		return b.T
	}
	return ex.tb.Bool(b.C)
}

func (ex *Exec) mkI(t *Term) Int {
	if t.IsConst() {
		return Int{W: t.W, C: t.C}
	}
	return Int{W: t.W, T: t}
}

func (ex *Exec) mkB(t *Term) Bool {
	if t.IsConst() {
		return Bool{C: t.C != 0}
	}
	return Bool{T: t}
}

func (ex *Exec) bnot(b Bool) Bool {
	if b.T == nil {
		return Bool{C: !b.C}
	}
	return ex.mkB(ex.tb.Not(b.T))
}

func (ex *Exec) band(a, b Bool) Bool {
	if a.T == nil {
		if !a.C {
			return a
		}
		return b
	}
	if b.T == nil {
		if !b.C {
			return b
		}
		return a
	}
	return ex.mkB(ex.tb.And(a.T, b.T))
}

func (ex *Exec) bor(a, b Bool) Bool {
	if a.T == nil {
		if a.C {
			return a
		}
		return b
	}
	if b.T == nil {
		if b.C {
			return b
		}
		return a
	}
	return ex.mkB(ex.tb.Or(a.T, b.T))
}

// ---- operands

func (ex *Exec) op(fr *frame, o *operand) Val {
	switch {
	case o.slot >= 0:
		return fr.regs[o.slot]
	case o.slot == -1:
		return o.v
	case o.slot == -3:
		return ex.global(o.g)
	case o.slot == -4:
		return zero(o.zt)
	}
	return nil
}

func (ex *Exec) global(g *ssa.Global) *Val {
	if p, ok := ex.globals[g]; ok {
		return p
	}
	p := new(Val)
	*p = zero(g.Type().(*types.Pointer).Elem())
	ex.globals[g] = p
	if g.Pkg != nil && !ex.env.inModule(g.Pkg) {
		ex.seedExternalGlobal(g, p)
	}
	return p
}

// ---- integer operations

var binopMap = map[token.Token][2]Op{ // [unsigned, signed]
	token.ADD: {OpAdd, OpAdd}, token.SUB: {OpSub, OpSub}, token.MUL: {OpMul, OpMul},
	token.QUO: {OpUDiv, OpSDiv}, token.REM: {OpURem, OpSRem},
	token.AND: {OpBAnd, OpBAnd}, token.OR: {OpBOr, OpBOr}, token.XOR: {OpBXor, OpBXor},
}

func (ex *Exec) intBin(op token.Token, x, y Int, signed bool) Val {
	tb := ex.tb
	switch op {
	case token.SHL, token.SHR:
		// widen both to 64 bits, shift, truncate (Go semantics for any count)
		if !x.sym() && !y.sym() {
			c := y.C
			var r uint64
			if op == token.SHL {
				if c < 64 {
					r = x.C << c
				}
			} else if signed {
				if c > 63 {
					c = 63
				}
				r = uint64(x.signed() >> c)
			} else if c < 64 {
				r = x.C >> c
			}
			return mkInt(x.W, r)
		}
		xt := tb.Resize(ex.it(x), 64, signed)
		yt := tb.Resize(ex.it(y), 64, false)
		o := OpShl
		if op == token.SHR {
			o = OpLShr
			if signed {
				o = OpAShr
			}
		}
		return ex.mkI(tb.Resize(tb.Bin(o, xt, yt), x.W, false))
	case token.AND_NOT:
		if !x.sym() && !y.sym() {
			return mkInt(x.W, x.C&^y.C)
		}
		return ex.mkI(tb.Bin(OpBAnd, ex.it(x), tb.Un(OpBNot, ex.it(y))))
	case token.EQL, token.NEQ:
		if !x.sym() && !y.sym() {
			return Bool{C: (x.C == y.C) == (op == token.EQL)}
		}
		e := tb.Eq(ex.it(x), ex.it(y))
		if op == token.NEQ {
			e = tb.Not(e)
		}
		return ex.mkB(e)
	case token.LSS, token.LEQ, token.GTR, token.GEQ:
		a, b := x, y
		if op == token.GTR || op == token.GEQ {
			a, b = y, x
		}
		strict := op == token.LSS || op == token.GTR
		if !a.sym() && !b.sym() {
			var lt, eq bool
			eq = a.C == b.C
			if signed {
				lt = a.signed() < b.signed()
			} else {
				lt = a.C < b.C
			}
			return Bool{C: lt || (!strict && eq)}
		}
		var o Op
		switch {
		case signed && strict:
			o = OpSlt
		case signed:
			o = OpSle
		case strict:
			o = OpUlt
		default:
			o = OpUle
		}
		return ex.mkB(tb.Bin(o, ex.it(a), ex.it(b)))
	}
	ops, ok := binopMap[op]
	if !ok {
		panic(unsupported{"int binop " + op.String()})
	}
	o := ops[0]
	if signed {
		o = ops[1]
	}
	if op == token.QUO || op == token.REM {
		if y.sym() {
			if ex.decide(ex.mkB(tb.Eq(y.T, tb.Const(0, y.W)))) {
				panic(goPanic{ex.runtimeError("integer divide by zero")})
			}
		} else if y.C == 0 {
			panic(goPanic{ex.runtimeError("integer divide by zero")})
		}
	}
	if !x.sym() && !y.sym() {
		return mkInt(x.W, evalBin(o, x.W, x.C, y.C))
	}
	return ex.mkI(tb.Bin(o, ex.it(x), ex.it(y)))
}

// runtimeError builds the panic value of a Go run-time error.
func (ex *Exec) runtimeError(msg string) Val {
	p := new(Val)
	if os.Getenv("GOSYM_TRACE") != "" {
		msg += " @" + ex.stackString()
	}
	*p = structure{"runtime error: " + msg}
	return iface{t: ex.env.runtimeErrorT, v: p}
}

// ---- equality

// equal computes a == b as a Bool (possibly symbolic).
func (ex *Exec) equal(a, b Val) Bool {
	switch x := a.(type) {
	case Int:
		y := b.(Int)
		if !x.sym() && !y.sym() {
			return Bool{C: x.C == y.C}
		}
		return ex.mkB(ex.tb.Eq(ex.it(x), ex.it(y)))
	case Bool:
		y := b.(Bool)
		if !x.sym() && !y.sym() {
			return Bool{C: x.C == y.C}
		}
		return ex.mkB(ex.tb.Eq(ex.bt(x), ex.bt(y)))
	case float64:
		return Bool{C: x == b.(float64)}
	case string:
		if y, ok := b.(string); ok {
			return Bool{C: x == y}
		}
		return ex.strEq(a, b)
	case symstr:
		return ex.strEq(a, b)
	case opaqueStr:
		if y, ok := b.(opaqueStr); ok && x == y {
			return Bool{C: true}
		}
		panic(unsupported{"comparison of opaque string"})
	case structure:
		y := b.(structure)
		r := Bool{C: true}
		for i := range x {
			r = ex.band(r, ex.equal(x[i], y[i]))
			if !r.sym() && !r.C {
				return r
			}
		}
		return r
	case array:
		y := b.(array)
		r := Bool{C: true}
		for i := range x {
			r = ex.band(r, ex.equal(x[i], y[i]))
			if !r.sym() && !r.C {
				return r
			}
		}
		return r
	case iface:
		y, ok := b.(iface)
		if !ok {
			return Bool{C: false}
		}
		if x.t == nil || y.t == nil {
			return Bool{C: x.t == nil && y.t == nil}
		}
		if !types.Identical(x.t, y.t) {
			return Bool{C: false}
		}
		return ex.equal(x.v, y.v)
	case *Val:
		switch y := b.(type) {
		case *Val:
			return Bool{C: x == y}
		case *symAddr:
			panic(unsupported{"pointer comparison with symbolic address"})
		}
		return Bool{C: false}
	case *gomap:
		y, _ := b.(*gomap)
		return Bool{C: x == y}
	case []Val:
		y, _ := b.([]Val)
		return Bool{C: x == nil && y == nil}
	case *ssa.Function:
		switch y := b.(type) {
		case *ssa.Function:
			return Bool{C: x == y}
		case *closure:
			return Bool{C: false}
		}
		return Bool{C: x == nil && b == nil}
	case *closure:
		if y, ok := b.(*closure); ok {
			return Bool{C: x == y}
		}
		return Bool{C: false}
	case nativeVal:
		y, ok := b.(nativeVal)
		return Bool{C: ok && x.v == y.v}
	case nil:
		switch y := b.(type) {
		case nil:
			return Bool{C: true}
		case *ssa.Function:
			return Bool{C: y == nil}
		}
		return Bool{C: false}
	}
	panic(unsupported{fmt.Sprintf("equal %T %T", a, b)})
}

func (ex *Exec) strEq(a, b Val) Bool {
	if isOpaque(a) || isOpaque(b) {
		panic(unsupported{"comparison of opaque string"})
	}
	x, y := strBytes(a), strBytes(b)
	if len(x) != len(y) {
		return Bool{C: false}
	}
	r := Bool{C: true}
	for i := range x {
		r = ex.band(r, ex.equal(x[i], y[i]))
		if !r.sym() && !r.C {
			return r
		}
	}
	return r
}

// strLess computes a < b lexicographically.
func (ex *Exec) strLess(a, b Val) Bool {
	x, y := strBytes(a), strBytes(b)
	// from the end: less_i = x[i]<y[i] || (x[i]==y[i] && less_{i+1})
	n := len(x)
	if len(y) < n {
		n = len(y)
	}
	r := Bool{C: len(x) < len(y)}
	for i := n - 1; i >= 0; i-- {
		lt := ex.intBin(token.LSS, x[i], y[i], false).(Bool)
		eq := ex.equal(x[i], y[i])
		r = ex.bor(lt, ex.band(eq, r))
	}
	return r
}

func (ex *Exec) binop(op token.Token, t types.Type, x, y Val) Val {
	switch xv := x.(type) {
	case Int:
		_, signed, _ := intInfo(t)
		yv := y.(Int)
		if op == token.SHL || op == token.SHR {
			return ex.intBin(op, xv, yv, signed)
		}
		return ex.intBin(op, xv, yv, signed)
	case float64:
		yv := y.(float64)
		switch op {
		case token.ADD:
			return xv + yv
		case token.SUB:
			return xv - yv
		case token.MUL:
			return xv * yv
		case token.QUO:
			return xv / yv
		case token.EQL:
			return Bool{C: xv == yv}
		case token.NEQ:
			return Bool{C: xv != yv}
		case token.LSS:
			return Bool{C: xv < yv}
		case token.LEQ:
			return Bool{C: xv <= yv}
		case token.GTR:
			return Bool{C: xv > yv}
		case token.GEQ:
			return Bool{C: xv >= yv}
		}
	case string, symstr, opaqueStr:
		switch op {
		case token.ADD:
			if isOpaque(x) || isOpaque(y) {
				ex.opaqueN++
				return opaqueStr{fmt.Sprintf("cat%d", ex.opaqueN)}
			}
			if xs, ok := x.(string); ok {
				if ys, ok := y.(string); ok {
					return xs + ys
				}
			}
			return mkStr(append(append([]Int(nil), strBytes(x)...), strBytes(y)...))
		case token.EQL:
			return ex.equal(x, y)
		case token.NEQ:
			return ex.bnot(ex.equal(x, y))
		case token.LSS:
			return ex.strLess(x, y)
		case token.GTR:
			return ex.strLess(y, x)
		case token.LEQ:
			return ex.bnot(ex.strLess(y, x))
		case token.GEQ:
			return ex.bnot(ex.strLess(x, y))
		}
	}
	switch op {
	case token.EQL:
		return ex.equal(x, y)
	case token.NEQ:
		return ex.bnot(ex.equal(x, y))
	}
	panic(unsupported{fmt.Sprintf("binop %s %T %T", op, x, y)})
}

// ---- conversions

func (ex *Exec) conv(dst, src types.Type, x Val) Val {
	dw, _, dInt := intInfo(dst)
	switch xv := x.(type) {
	case Int:
		if dInt {
			_, ssigned, _ := intInfo(src)
			if !xv.sym() {
				var c uint64
				if ssigned {
					c = uint64(xv.signed())
				} else {
					c = xv.C
				}
				return mkInt(dw, c)
			}
			return ex.mkI(ex.tb.Resize(xv.T, dw, ssigned))
		}
		if isString(dst) {
			// string(rune)
			if xv.sym() {
				b := ex.encodeRuneSym(xv)
				return mkStr(b)
			}
			return string(rune(xv.signed()))
		}
		if isFloat(dst) {
			if xv.sym() {
				panic(unsupported{"symbolic int to float"})
			}
			_, ssigned, _ := intInfo(src)
			if ssigned {
				return float64(xv.signed())
			}
			return float64(xv.C)
		}
	case float64:
		if dInt {
			return mkInt(dw, uint64(int64(xv)))
		}
		if isFloat(dst) {
			if b := dst.Underlying().(*types.Basic); b.Kind() == types.Float32 {
				return float64(float32(xv))
			}
			return xv
		}
	case string, symstr:
		if isString(dst) {
			return x
		}
		if sl, ok := dst.Underlying().(*types.Slice); ok {
			ew, _, _ := intInfo(sl.Elem())
			if ew == 8 {
				return sliceOfBytes(strBytes(x))
			}
			if ew == 32 {
				return ex.runesOf(strBytes(x))
			}
		}
	case opaqueStr:
		if isString(dst) {
			return x
		}
		panic(unsupported{"conversion of opaque string " + xv.tag})
	case []Val:
		if isString(dst) {
			sl := src.Underlying().(*types.Slice)
			ew, _, _ := intInfo(sl.Elem())
			if ew == 8 {
				return mkStr(bytesOfSlice(xv))
			}
			if ew == 32 {
				var out []Int
				for _, r := range xv {
					ri := r.(Int)
					if ri.sym() {
						out = append(out, ex.encodeRuneSym(ri)...)
					} else {
						out = append(out, strBytes(string(rune(ri.signed())))...)
					}
				}
				return mkStr(out)
			}
		}
	case *Val:
		// unsafe.Pointer conversions etc.
		return x
	}
	panic(unsupported{fmt.Sprintf("conv %s -> %s (%T)", src, dst, x)})
}

// ---- symbolic UTF-8

// decodeRuneSym decodes one rune at the start of b exactly like utf8.DecodeRune,
// forking on the byte classes when the bytes are symbolic.
func (ex *Exec) decodeRuneSym(b []Int) (Int, int) {
	if len(b) == 0 {
		return mkInt(32, 0xFFFD), 0
	}
	tb := ex.tb
	inR := func(x Int, lo, hi uint64) Bool {
		if !x.sym() {
			return Bool{C: x.C >= lo && x.C <= hi}
		}
		return ex.mkB(tb.And(tb.Bin(OpUle, tb.Const(lo, 8), x.T), tb.Bin(OpUle, x.T, tb.Const(hi, 8))))
	}
	r32 := func(x Int) *Term { return tb.Resize(ex.it(x), 32, false) }
	b0 := b[0]
	if ex.decide(inR(b0, 0, 0x7F)) {
		return ex.mkI(r32(b0)), 1
	}
	bad := func() (Int, int) { return mkInt(32, 0xFFFD), 1 }
	cont := func(x Int) Bool { return inR(x, 0x80, 0xBF) }
	sh := func(t *Term, n uint64) *Term { return tb.Bin(OpShl, t, tb.Const(n, 32)) }
	and := func(t *Term, m uint64) *Term { return tb.Bin(OpBAnd, t, tb.Const(m, 32)) }
	or := func(a, b *Term) *Term { return tb.Bin(OpBOr, a, b) }
	// 2-byte
	if ex.decide(inR(b0, 0xC2, 0xDF)) {
		if len(b) < 2 || !ex.decide(cont(b[1])) {
			return bad()
		}
		return ex.mkI(or(sh(and(r32(b0), 0x1F), 6), and(r32(b[1]), 0x3F))), 2
	}
	// 3-byte
	if ex.decide(inR(b0, 0xE0, 0xEF)) {
		if len(b) < 3 {
			return bad()
		}
		var c1 Bool
		switch {
		case ex.decide(inR(b0, 0xE0, 0xE0)):
			c1 = inR(b[1], 0xA0, 0xBF)
		case ex.decide(inR(b0, 0xED, 0xED)):
			c1 = inR(b[1], 0x80, 0x9F)
		default:
			c1 = cont(b[1])
		}
		if !ex.decide(c1) || !ex.decide(cont(b[2])) {
			return bad()
		}
		return ex.mkI(or(or(sh(and(r32(b0), 0x0F), 12), sh(and(r32(b[1]), 0x3F), 6)), and(r32(b[2]), 0x3F))), 3
	}
	// 4-byte
	if ex.decide(inR(b0, 0xF0, 0xF4)) {
		if len(b) < 4 {
			return bad()
		}
		var c1 Bool
		switch {
		case ex.decide(inR(b0, 0xF0, 0xF0)):
			c1 = inR(b[1], 0x90, 0xBF)
		case ex.decide(inR(b0, 0xF4, 0xF4)):
			c1 = inR(b[1], 0x80, 0x8F)
		default:
			c1 = cont(b[1])
		}
		if !ex.decide(c1) || !ex.decide(cont(b[2])) || !ex.decide(cont(b[3])) {
			return bad()
		}
		return ex.mkI(or(or(or(sh(and(r32(b0), 0x07), 18), sh(and(r32(b[1]), 0x3F), 12)), sh(and(r32(b[2]), 0x3F), 6)), and(r32(b[3]), 0x3F))), 4
	}
	return bad()
}

// encodeRuneSym encodes a symbolic rune like utf8.EncodeRune / string(rune),
// forking on the length class.
func (ex *Exec) encodeRuneSym(r Int) []Int {
	tb := ex.tb
	t := ex.it(r)
	if t.W != 32 {
		t = tb.Resize(t, 32, true)
	}
	ult := func(k uint64) Bool { return ex.mkB(tb.Bin(OpUlt, t, tb.Const(k, 32))) }
	b8 := func(x *Term) Int { return ex.mkI(tb.Resize(x, 8, false)) }
	shr := func(n uint64) *Term { return tb.Bin(OpLShr, t, tb.Const(n, 32)) }
	m := func(x *Term, mask, or uint64) *Term {
		return tb.Bin(OpBOr, tb.Bin(OpBAnd, x, tb.Const(mask, 32)), tb.Const(or, 32))
	}
	if ex.decide(ult(0x80)) {
		return []Int{b8(t)}
	}
	if ex.decide(ult(0x800)) {
		return []Int{b8(m(shr(6), 0x1F, 0xC0)), b8(m(t, 0x3F, 0x80))}
	}
	// surrogates and out of range -> U+FFFD
	sur := ex.mkB(tb.And(tb.Bin(OpUle, tb.Const(0xD800, 32), t), tb.Bin(OpUle, t, tb.Const(0xDFFF, 32))))
	if ex.decide(sur) || !ex.decide(ult(0x110000)) {
		return strBytes("�")
	}
	if ex.decide(ult(0x10000)) {
		return []Int{b8(m(shr(12), 0x0F, 0xE0)), b8(m(shr(6), 0x3F, 0x80)), b8(m(t, 0x3F, 0x80))}
	}
	return []Int{b8(m(shr(18), 0x07, 0xF0)), b8(m(shr(12), 0x3F, 0x80)), b8(m(shr(6), 0x3F, 0x80)), b8(m(t, 0x3F, 0x80))}
}

func (ex *Exec) runesOf(b []Int) []Val {
	out := []Val{}
	if cb, ok := concreteBytes(b); ok {
		for _, r := range string(cb) {
			out = append(out, mkInt(32, uint64(r)))
		}
		return out
	}
	for i := 0; i < len(b); {
		r, n := ex.decodeRuneSym(b[i:])
		out = append(out, r)
		i += n
	}
	return out
}

// ---- index helpers

func (ex *Exec) boundsPanic(what string) {
	panic(goPanic{ex.runtimeError(what)})
}

// concIndex returns a concrete in-range index, forking when symbolic.
func (ex *Exec) concIndex(idx Int, n int) int {
	if !idx.sym() {
		if idx.signed() < 0 || idx.signed() >= int64(n) {
			ex.boundsPanic(fmt.Sprintf("index out of range [%d] with length %d", idx.signed(), n))
		}
		return int(idx.C)
	}
	oob := ex.mkB(ex.tb.Bin(OpUle, ex.tb.Const(uint64(n), idx.W), idx.T))
	if ex.decide(oob) {
		ex.boundsPanic(fmt.Sprintf("index out of range [symbolic] with length %d", n))
	}
	return int(ex.choose(idx))
}

func (ex *Exec) concBound(idx Int, n int, what string) int {
	if !idx.sym() {
		if idx.signed() < 0 || idx.signed() > int64(n) {
			ex.boundsPanic(fmt.Sprintf("slice bounds out of range [%s%d] with capacity %d", what, idx.signed(), n))
		}
		return int(idx.C)
	}
	oob := ex.mkB(ex.tb.Bin(OpUlt, ex.tb.Const(uint64(n), idx.W), idx.T))
	if ex.decide(oob) {
		ex.boundsPanic("slice bounds out of range [symbolic]")
	}
	return int(ex.choose(idx))
}

// symLoad reads arr[idx] for a symbolic in-range idx.
func (ex *Exec) symLoad(arr []Val, idx Int) Val {
	// scalars: ite chain; others: fork
	allInt, allBool := true, true
	w := 0
	for _, e := range arr {
		switch x := e.(type) {
		case Int:
			allBool = false
			if w == 0 {
				w = x.W
			} else if w != x.W {
				allInt = false
			}
		case Bool:
			allInt = false
		default:
			allInt, allBool = false, false
		}
	}
	tb := ex.tb
	if allInt && len(arr) > 0 {
		r := ex.it(arr[len(arr)-1].(Int))
		for i := len(arr) - 2; i >= 0; i-- {
			r = tb.Ite(tb.Eq(idx.T, tb.Const(uint64(i), idx.W)), ex.it(arr[i].(Int)), r)
		}
		return ex.mkI(r)
	}
	if allBool && len(arr) > 0 {
		r := ex.bt(arr[len(arr)-1].(Bool))
		for i := len(arr) - 2; i >= 0; i-- {
			r = tb.Ite(tb.Eq(idx.T, tb.Const(uint64(i), idx.W)), ex.bt(arr[i].(Bool)), r)
		}
		return ex.mkB(r)
	}
	i := int(ex.choose(idx))
	return copyVal(arr[i])
}

func (ex *Exec) load(p Val) Val {
	switch a := p.(type) {
	case *Val:
		if a == nil {
			panic(goPanic{ex.runtimeError("invalid memory address or nil pointer dereference")})
		}
		return copyVal(*a)
	case *symAddr:
		return ex.symLoad(a.arr, a.idx)
	}
	panic(unsupported{fmt.Sprintf("load through %T", p)})
}

func (ex *Exec) storeTo(p Val, v Val) {
	switch a := p.(type) {
	case *Val:
		if a == nil {
			panic(goPanic{ex.runtimeError("invalid memory address or nil pointer dereference")})
		}
		store(a, v)
		return
	case *symAddr:
		i := int(ex.choose(a.idx))
		store(&a.arr[i], v)
		return
	}
	panic(unsupported{fmt.Sprintf("store through %T", p)})
}

func (ex *Exec) ptr(v Val) *Val {
	switch a := v.(type) {
	case *Val:
		if a == nil {
			panic(goPanic{ex.runtimeError("invalid memory address or nil pointer dereference")})
		}
		return a
	case *symAddr:
		i := int(ex.choose(a.idx))
		return &a.arr[i]
	}
	panic(unsupported{fmt.Sprintf("pointer expected, got %T", v)})
}

// ---- calls

func (ex *Exec) callValue(f Val, args []Val, caller *frame) Val {
	switch f := f.(type) {
	case *ssa.Function:
		if f == nil {
			panic(goPanic{ex.runtimeError("invalid memory address or nil pointer dereference")})
		}
		return ex.call(f, args, nil, caller)
	case *closure:
		return ex.call(f.Fn, args, f.Env, caller)
	case nil:
		panic(goPanic{ex.runtimeError("invalid memory address or nil pointer dereference")})
	}
	panic(unsupported{fmt.Sprintf("callValue %T", f)})
}

func (ex *Exec) lookupMethod(t types.Type, m *types.Func) *ssa.Function {
	sel := ex.env.prog.MethodSets.MethodSet(t).Lookup(m.Pkg(), m.Name())
	if sel == nil {
		return nil
	}
	return ex.env.prog.MethodValue(sel)
}

func (ex *Exec) invoke(recv iface, m *types.Func, args []Val, caller *frame) Val {
	if recv.t == nil {
		panic(goPanic{ex.runtimeError("invalid memory address or nil pointer dereference")})
	}
	if nv, ok := recv.v.(nativeVal); ok {
		return ex.nativeMethod(nv, m.Name(), args)
	}
	fn := ex.lookupMethod(recv.t, m)
	if fn == nil {
		panic(unsupported{"method lookup " + recv.t.String() + "." + m.Name()})
	}
	return ex.call(fn, append([]Val{recv.v}, args...), nil, caller)
}

func (ex *Exec) call(fn *ssa.Function, args []Val, env []Val, caller *frame) Val {
	if !ex.env.interpreted(fn) {
		if r, ok := ex.intrinsic(fn, args, caller); ok {
			return r
		}
	}
	if fn.Blocks == nil {
		panic(unsupported{"external function " + fn.String()})
	}
	cf := getCFunc(fn)
	if ex.fnHits != nil {
		ex.fnHits[fn]++
	}
	if cf.isPure && !ex.mergeOff && anySym(args) {
		return ex.evalPure(cf, args)
	}
	ex.depth++
	if ex.depth > 3000 {
		panic(fuelOut{"call depth"})
	}
	ex.stack = append(ex.stack, fn)
	fr := &frame{cf: cf, regs: make([]Val, cf.nslots), caller: caller, sp: len(ex.stack), dep: ex.depth}
	for i, s := range cf.params {
		fr.regs[s] = args[i]
	}
	for i, s := range cf.freevars {
		fr.regs[s] = env[i]
	}
	fr.block = cf.blocks[0]
	r := ex.runFrame(fr)
	ex.depth--
	ex.stack = ex.stack[:len(ex.stack)-1]
	return r
}

func anySym(args []Val) bool {
	for _, a := range args {
		switch x := a.(type) {
		case Int:
			if x.sym() {
				return true
			}
		case Bool:
			if x.sym() {
				return true
			}
		}
	}
	return false
}

func (ex *Exec) runFrame(fr *frame) (res Val) {
	defer func() {
		if r := recover(); r != nil {
			gp, ok := r.(goPanic)
			if !ok {
				if ex.trace == "" {
					ex.trace = ex.stackString()
				}
				panic(r)
			}
			fr.panicking = true
			fr.panicVal = gp.v
			ex.runDefers(fr)
			if fr.panicking {
				ex.depth--
				if ex.trace == "" {
					ex.trace = ex.stackString()
				}
				ex.stack = ex.stack[:len(ex.stack)-1]
				panic(goPanic{fr.panicVal})
			}
			ex.trace = ""
			ex.stack = ex.stack[:fr.sp]
			ex.depth = fr.dep
			// recovered
			if fr.cf.recover != nil {
				fr.block = fr.cf.recover
				fr.prev = nil
				fr.phiOver = nil
				for fr.block != nil {
					ex.runBlock(fr)
				}
				res = fr.result
			} else {
				res = zeroResult(fr.cf.fn)
			}
		}
	}()
	for fr.block != nil {
		ex.runBlock(fr)
	}
	return fr.result
}

func zeroResult(fn *ssa.Function) Val {
	rs := fn.Signature.Results()
	switch rs.Len() {
	case 0:
		return nil
	case 1:
		return zero(rs.At(0).Type())
	}
	return zero(rs)
}

func (ex *Exec) runDefers(fr *frame) {
	for len(fr.defers) > 0 {
		d := fr.defers[len(fr.defers)-1]
		fr.defers = fr.defers[:len(fr.defers)-1]
		if d.method != nil {
			ex.invoke(d.recv.(iface), d.method, d.args, fr)
		} else if b, ok := d.fn.(*ssa.Builtin); ok {
			ex.builtin(fr, b, d.args, nil)
		} else {
			ex.callValue(d.fn, d.args, fr)
		}
	}
}

func (ex *Exec) doCall(fr *frame, ci *cinstr, c *ssa.CallCommon) Val {
	nargs := len(c.Args)
	args := make([]Val, nargs)
	for i := 0; i < nargs; i++ {
		args[i] = ex.op(fr, &ci.ops[1+i])
	}
	if c.IsInvoke() {
		recv, ok := ex.op(fr, &ci.ops[0]).(iface)
		if !ok {
			panic(unsupported{"invoke on non-interface"})
		}
		return ex.invoke(recv, c.Method, args, fr)
	}
	fv := ex.op(fr, &ci.ops[0])
	if b, ok := fv.(*ssa.Builtin); ok {
		return ex.builtin(fr, b, args, c)
	}
	return ex.callValue(fv, args, fr)
}

func (ex *Exec) builtin(fr *frame, b *ssa.Builtin, args []Val, c *ssa.CallCommon) Val {
	switch b.Name() {
	case "len":
		switch a := args[0].(type) {
		case []Val:
			return mkInt(64, uint64(len(a)))
		case string:
			return mkInt(64, uint64(len(a)))
		case symstr:
			return mkInt(64, uint64(len(a)))
		case *gomap:
			if a == nil {
				return mkInt(64, 0)
			}
			return mkInt(64, uint64(len(a.keys)))
		case array:
			return mkInt(64, uint64(len(a)))
		case *Val:
			return mkInt(64, uint64(len((*a).(array))))
		case opaqueStr:
			panic(unsupported{"len of opaque string " + a.tag})
		case nil:
			return mkInt(64, 0)
		}
	case "cap":
		switch a := args[0].(type) {
		case []Val:
			return mkInt(64, uint64(cap(a)))
		case array:
			return mkInt(64, uint64(len(a)))
		}
	case "append":
		a, _ := args[0].([]Val)
		switch b := args[1].(type) {
		case []Val:
			if len(b) == 0 {
				return a
			}
			// copy element values (struct elements have value semantics)
			for _, e := range b {
				a = append(a, copyVal(e))
			}
			return a
		case string, symstr:
			for _, e := range strBytes(b) {
				a = append(a, e)
			}
			return a
		case nil:
			return a
		}
	case "copy":
		d, _ := args[0].([]Val)
		switch s := args[1].(type) {
		case []Val:
			n := len(d)
			if len(s) < n {
				n = len(s)
			}
			tmp := make([]Val, n)
			for i := 0; i < n; i++ {
				tmp[i] = copyVal(s[i])
			}
			for i := 0; i < n; i++ {
				store(&d[i], tmp[i])
			}
			return mkInt(64, uint64(n))
		case string, symstr:
			sb := strBytes(s)
			n := len(d)
			if len(sb) < n {
				n = len(sb)
			}
			for i := 0; i < n; i++ {
				d[i] = sb[i]
			}
			return mkInt(64, uint64(n))
		}
	case "delete":
		m, _ := args[0].(*gomap)
		if ex.guardOf != nil {
			ex.checkGuardedMap(fr.cf.fn, m, true)
		}
		ex.mapDelete(m, args[1])
		return nil
	case "recover":
		if fr.caller != nil && fr.caller.panicking {
			fr.caller.panicking = false
			v := fr.caller.panicVal
			fr.caller.panicVal = nil
			if i, ok := v.(iface); ok {
				return i
			}
			return iface{t: types.Typ[types.String], v: fmt.Sprint(v)}
		}
		return iface{}
	case "panic":
		panic(goPanic{args[0]})
	case "print", "println":
		return nil
	case "ssa:wrapnilchk":
		if p, ok := args[0].(*Val); ok && p == nil {
			panic(goPanic{ex.runtimeError("value method called using nil pointer")})
		}
		return args[0]
	case "min", "max":
		x, y := args[0].(Int), args[1].(Int)
		_, signed, _ := intInfo(c.Args[0].Type())
		lt := ex.intBin(token.LSS, x, y, signed).(Bool)
		if b.Name() == "max" {
			x, y = y, x
		}
		if !lt.sym() {
			if lt.C {
				return x
			}
			return y
		}
		return ex.mkI(ex.tb.Ite(lt.T, ex.it(x), ex.it(y)))
	}
	panic(unsupported{fmt.Sprintf("builtin %s(%T)", b.Name(), args[0])})
}

// ---- maps

func (ex *Exec) mapFind(m *gomap, k Val) int {
	if m == nil {
		return -1
	}
	if ck, ok := concKey(k); ok && m.idx != nil {
		if i, ok := m.idx[ck]; ok {
			return i
		}
		if len(m.idx) == len(m.keys) {
			return -1
		}
	}
	for i, kk := range m.keys {
		if _, ok := concKey(kk); ok {
			if _, ok2 := concKey(k); ok2 {
				continue // both concrete and not equal via idx
			}
		}
		e := ex.equal(kk, k)
		if ex.decide(e) {
			return i
		}
	}
	return -1
}

func (ex *Exec) mapSet(m *gomap, k, v Val) {
	if m == nil {
		panic(goPanic{ex.runtimeError("assignment to entry in nil map")})
	}
	if i := ex.mapFind(m, k); i >= 0 {
		m.vals[i] = copyVal(v)
		return
	}
	if ck, ok := concKey(k); ok {
		if m.idx == nil {
			m.idx = map[string]int{}
		}
		m.idx[ck] = len(m.keys)
	}
	m.keys = append(m.keys, k)
	m.vals = append(m.vals, copyVal(v))
}

func (ex *Exec) mapDelete(m *gomap, k Val) {
	i := ex.mapFind(m, k)
	if i < 0 {
		return
	}
	m.keys = append(m.keys[:i:i], m.keys[i+1:]...)
	m.vals = append(m.vals[:i:i], m.vals[i+1:]...)
	m.idx = map[string]int{}
	for j, kk := range m.keys {
		if ck, ok := concKey(kk); ok {
			m.idx[ck] = j
		}
	}
}

// ---- the instruction loop

func (ex *Exec) jump(fr *frame, from, to *cblock) {
	fr.prev = from
	fr.block = to
	fr.phiOver = nil
}

func (ex *Exec) runBlock(fr *frame) {
	b := fr.block
	ex.instrs += int64(len(b.instrs))
	if ex.instrs > ex.fuel {
		panic(fuelOut{"instructions"})
	}
	// phis (parallel assignment)
	if b.nphi > 0 {
		if fr.phiOver != nil {
			for i := 0; i < b.nphi; i++ {
				fr.regs[b.instrs[i].dst] = fr.phiOver[i]
			}
			fr.phiOver = nil
		} else {
			pi := -1
			for i, p := range b.preds {
				if p == fr.prev {
					pi = i
					break
				}
			}
			if pi < 0 {
				panic(unsupported{"phi without matching predecessor in " + fr.cf.fn.String()})
			}
			if b.nphi == 1 {
				fr.regs[b.instrs[0].dst] = ex.op(fr, &b.instrs[0].ops[pi])
			} else {
				tmp := make([]Val, b.nphi)
				for i := 0; i < b.nphi; i++ {
					tmp[i] = ex.op(fr, &b.instrs[i].ops[pi])
				}
				for i := 0; i < b.nphi; i++ {
					fr.regs[b.instrs[i].dst] = tmp[i]
				}
			}
		}
	}
	for k := b.nphi; k < len(b.instrs); k++ {
		ci := &b.instrs[k]
		switch in := ci.in.(type) {
		case *ssa.UnOp:
			x := ex.op(fr, &ci.ops[0])
			switch in.Op {
			case token.MUL:
				fr.regs[ci.dst] = ex.load(x)
				if ex.guardOf != nil {
					ex.checkGuardedLoad(fr.cf.fn, x, fr.regs[ci.dst])
				}
			case token.NOT:
				fr.regs[ci.dst] = ex.bnot(x.(Bool))
			case token.SUB:
				switch xv := x.(type) {
				case Int:
					if xv.sym() {
						fr.regs[ci.dst] = ex.mkI(ex.tb.Un(OpNeg, xv.T))
					} else {
						fr.regs[ci.dst] = mkInt(xv.W, -xv.C)
					}
				case float64:
					fr.regs[ci.dst] = -xv
				}
			case token.XOR:
				xv := x.(Int)
				if xv.sym() {
					fr.regs[ci.dst] = ex.mkI(ex.tb.Un(OpBNot, xv.T))
				} else {
					fr.regs[ci.dst] = mkInt(xv.W, ^xv.C)
				}
			default:
				panic(unsupported{"unop " + in.Op.String()})
			}
		case *ssa.BinOp:
			fr.regs[ci.dst] = ex.binop(in.Op, in.X.Type(), ex.op(fr, &ci.ops[0]), ex.op(fr, &ci.ops[1]))
		case *ssa.FieldAddr:
			p := ex.ptr(ex.op(fr, &ci.ops[0]))
			if nv, isNative := (*p).(nativeVal); isNative && !noNativeField {
				// read-only view of an exported scalar field of a natively held struct (e.g. url.URL.Host)
				rv := reflect.ValueOf(nv.v)
				if rv.Kind() == reflect.Ptr && rv.Elem().Kind() == reflect.Struct && in.Field < rv.Elem().NumField() && rv.Elem().Type().Field(in.Field).IsExported() {
					cell := new(Val)
					*cell = ex.fromGo(rv.Elem().Field(in.Field))
					fr.regs[ci.dst] = cell
					continue
				}
				panic(unsupported{"field of a native " + rv.Type().String()})
			}
			fp := &(*p).(structure)[in.Field]
			fr.regs[ci.dst] = fp
			if ex.lockDisc {
				ex.guardField(fr.cf.fn, in, p, fp)
			}
		case *ssa.Store:
			if ex.guardOf != nil {
				ex.checkGuardedStore(fr.cf.fn, ex.op(fr, &ci.ops[0]))
			}
			ex.storeTo(ex.op(fr, &ci.ops[0]), ex.op(fr, &ci.ops[1]))
		case *ssa.Call:
			fr.regs[ci.dst] = ex.doCall(fr, ci, &in.Call)
		case *ssa.If:
			c := ex.op(fr, &ci.ops[0]).(Bool)
			if c.T == nil {
				if c.C {
					ex.jump(fr, b, b.succs[0])
				} else {
					ex.jump(fr, b, b.succs[1])
				}
				return
			}
			if !ex.mergeOff && ex.mergeIf(fr, b, c) {
				return
			}
			if ex.decide(c) {
				ex.jump(fr, b, b.succs[0])
			} else {
				ex.jump(fr, b, b.succs[1])
			}
			return
		case *ssa.Jump:
			ex.jump(fr, b, b.succs[0])
			return
		case *ssa.Return:
			switch len(ci.ops) {
			case 0:
				fr.result = nil
			case 1:
				fr.result = ex.op(fr, &ci.ops[0])
			default:
				t := make(tuple, len(ci.ops))
				for i := range ci.ops {
					t[i] = ex.op(fr, &ci.ops[i])
				}
				fr.result = t
			}
			fr.block = nil
			return
		case *ssa.IndexAddr:
			x := ex.op(fr, &ci.ops[0])
			idx := ex.op(fr, &ci.ops[1]).(Int)
			var arr []Val
			switch xv := x.(type) {
			case []Val:
				arr = xv
			case *Val:
				if xv == nil {
					panic(goPanic{ex.runtimeError("invalid memory address or nil pointer dereference")})
				}
				arr = []Val((*xv).(array))
			default:
				panic(unsupported{fmt.Sprintf("indexaddr %T", x)})
			}
			if idx.W != 64 {
				_, sg, _ := intInfo(in.Index.Type())
				idx = ex.conv64(idx, sg)
			}
			if !idx.sym() {
				fr.regs[ci.dst] = &arr[ex.concIndex(idx, len(arr))]
			} else {
				oob := ex.mkB(ex.tb.Bin(OpUle, ex.tb.Const(uint64(len(arr)), 64), idx.T))
				if ex.decide(oob) {
					ex.boundsPanic(fmt.Sprintf("index out of range [symbolic] with length %d", len(arr)))
				}
				if len(arr) == 1 {
					fr.regs[ci.dst] = &arr[0]
				} else {
					fr.regs[ci.dst] = &symAddr{arr: arr, idx: idx}
				}
			}
		case *ssa.Alloc:
			p := new(Val)
			*p = zero(in.Type().(*types.Pointer).Elem())
			fr.regs[ci.dst] = p
		case *ssa.Extract:
			fr.regs[ci.dst] = ex.op(fr, &ci.ops[0]).(tuple)[in.Index]
		case *ssa.Field:
			fr.regs[ci.dst] = copyVal(ex.op(fr, &ci.ops[0]).(structure)[in.Field])
		case *ssa.Index:
			x := ex.op(fr, &ci.ops[0])
			idx := ex.op(fr, &ci.ops[1]).(Int)
			if idx.W != 64 {
				_, sg, _ := intInfo(in.Index.Type())
				idx = ex.conv64(idx, sg)
			}
			switch xv := x.(type) {
			case array:
				if idx.sym() {
					oob := ex.mkB(ex.tb.Bin(OpUle, ex.tb.Const(uint64(len(xv)), 64), idx.T))
					if ex.decide(oob) {
						ex.boundsPanic("index out of range [symbolic]")
					}
					fr.regs[ci.dst] = ex.symLoad([]Val(xv), idx)
				} else {
					fr.regs[ci.dst] = copyVal(xv[ex.concIndex(idx, len(xv))])
				}
			case string, symstr:
				fr.regs[ci.dst] = ex.strIndex(x, idx)
			default:
				panic(unsupported{fmt.Sprintf("index %T", x)})
			}
		case *ssa.Lookup:
			x := ex.op(fr, &ci.ops[0])
			k := ex.op(fr, &ci.ops[1])
			switch xv := x.(type) {
			case string, symstr:
				idx := k.(Int)
				if idx.W != 64 {
					_, sg, _ := intInfo(in.Index.Type())
					idx = ex.conv64(idx, sg)
				}
				fr.regs[ci.dst] = ex.strIndex(x, idx)
			case *gomap:
				if ex.guardOf != nil {
					ex.checkGuardedMap(fr.cf.fn, xv, false)
				}
				i := ex.mapFind(xv, k)
				var v Val
				if i >= 0 {
					v = copyVal(xv.vals[i])
				} else {
					v = zero(in.X.Type().Underlying().(*types.Map).Elem())
				}
				if in.CommaOk {
					fr.regs[ci.dst] = tuple{v, Bool{C: i >= 0}}
				} else {
					fr.regs[ci.dst] = v
				}
			default:
				panic(unsupported{fmt.Sprintf("lookup %T", x)})
			}
		case *ssa.Slice:
			fr.regs[ci.dst] = ex.slice(fr, ci, in)
		case *ssa.MakeInterface:
			fr.regs[ci.dst] = iface{t: in.X.Type(), v: ex.op(fr, &ci.ops[0])}
		case *ssa.MakeClosure:
			env := make([]Val, len(ci.ops)-1)
			for i := range env {
				env[i] = ex.op(fr, &ci.ops[1+i])
			}
			fr.regs[ci.dst] = &closure{Fn: in.Fn.(*ssa.Function), Env: env}
		case *ssa.ChangeType:
			fr.regs[ci.dst] = ex.op(fr, &ci.ops[0])
		case *ssa.ChangeInterface:
			fr.regs[ci.dst] = ex.op(fr, &ci.ops[0])
		case *ssa.Convert:
			fr.regs[ci.dst] = ex.conv(in.Type(), in.X.Type(), ex.op(fr, &ci.ops[0]))
		case *ssa.TypeAssert:
			fr.regs[ci.dst] = ex.typeAssert(in, ex.op(fr, &ci.ops[0]))
		case *ssa.MakeMap:
			fr.regs[ci.dst] = &gomap{}
		case *ssa.MapUpdate:
			m, _ := ex.op(fr, &ci.ops[0]).(*gomap)
			if ex.guardOf != nil {
				ex.checkGuardedMap(fr.cf.fn, m, true)
			}
			ex.mapSet(m, ex.op(fr, &ci.ops[1]), ex.op(fr, &ci.ops[2]))
		case *ssa.MakeSlice:
			l := ex.op(fr, &ci.ops[0]).(Int)
			c := ex.op(fr, &ci.ops[1]).(Int)
			ln := ex.concLen(l, "len")
			cn := ex.concLen(c, "cap")
			if ln > cn {
				panic(goPanic{ex.runtimeError("makeslice: cap out of range")})
			}
			et := in.Type().Underlying().(*types.Slice).Elem()
			s := make([]Val, ln, cn)
			for i := range s {
				s[i] = zero(et)
			}
			// cells beyond len up to cap must exist with zero values too
			full := s[:cn]
			for i := ln; i < cn; i++ {
				full[i] = zero(et)
			}
			fr.regs[ci.dst] = s
		case *ssa.Range:
			x := ex.op(fr, &ci.ops[0])
			switch xv := x.(type) {
			case *gomap:
				if ex.guardOf != nil {
					ex.checkGuardedMap(fr.cf.fn, xv, false)
				}
				it := &mapIter{}
				if xv != nil {
					it.keys = append(it.keys, xv.keys...)
					it.vals = append(it.vals, xv.vals...)
					ex.orderMapIter(it)
				}
				fr.regs[ci.dst] = it
			case string, symstr:
				fr.regs[ci.dst] = &strIter{s: x}
			default:
				panic(unsupported{fmt.Sprintf("range %T", x)})
			}
		case *ssa.Next:
			switch it := ex.op(fr, &ci.ops[0]).(type) {
			case *mapIter:
				if it.i < len(it.keys) {
					fr.regs[ci.dst] = tuple{Bool{C: true}, it.keys[it.i], copyVal(it.vals[it.i])}
					it.i++
				} else {
					fr.regs[ci.dst] = tuple{Bool{C: false}, nil, nil}
				}
			case *strIter:
				n := strLen(it.s)
				if it.pos >= n {
					fr.regs[ci.dst] = tuple{Bool{C: false}, mkInt(64, 0), mkInt(32, 0)}
				} else {
					r, sz := ex.decodeRuneAt(it.s, it.pos)
					fr.regs[ci.dst] = tuple{Bool{C: true}, mkInt(64, uint64(it.pos)), r}
					it.pos += sz
				}
			}
		case *ssa.Defer:
			nargs := len(in.Call.Args)
			args := make([]Val, nargs)
			for i := 0; i < nargs; i++ {
				args[i] = ex.op(fr, &ci.ops[1+i])
			}
			d := deferred{args: args}
			if in.Call.IsInvoke() {
				d.method = in.Call.Method
				d.recv = ex.op(fr, &ci.ops[0])
			} else {
				d.fn = ex.op(fr, &ci.ops[0])
			}
			fr.defers = append(fr.defers, d)
		case *ssa.RunDefers:
			ex.runDefers(fr)
		case *ssa.Panic:
			panic(goPanic{ex.op(fr, &ci.ops[0])})
		case *ssa.SliceToArrayPointer:
			panic(unsupported{"SliceToArrayPointer"})
		default:
			panic(unsupported{fmt.Sprintf("instr %T in %s", in, fr.cf.fn)})
		}
	}
}

func (ex *Exec) conv64(i Int, signed bool) Int {
	if !i.sym() {
		if signed {
			return mkInt(64, uint64(i.signed()))
		}
		return mkInt(64, i.C)
	}
	return ex.mkI(ex.tb.Resize(i.T, 64, signed))
}

func (ex *Exec) concLen(l Int, what string) int {
	if !l.sym() {
		if l.signed() < 0 || l.signed() > 1<<24 {
			panic(goPanic{ex.runtimeError("makeslice: " + what + " out of range")})
		}
		return int(l.C)
	}
	neg := ex.mkB(ex.tb.Bin(OpSlt, l.T, ex.tb.Const(0, l.W)))
	if ex.decide(neg) {
		panic(goPanic{ex.runtimeError("makeslice: " + what + " out of range")})
	}
	return int(ex.choose(l))
}

func (ex *Exec) strIndex(s Val, idx Int) Val {
	b := strBytes(s)
	if !idx.sym() {
		return b[ex.concIndex(idx, len(b))]
	}
	oob := ex.mkB(ex.tb.Bin(OpUle, ex.tb.Const(uint64(len(b)), 64), idx.T))
	if ex.decide(oob) {
		ex.boundsPanic("index out of range [symbolic]")
	}
	return ex.symLoad(sliceOfBytes(b), idx)
}

func (ex *Exec) decodeRuneAt(s Val, pos int) (Int, int) {
	if cs, ok := s.(string); ok {
		for _, r := range cs[pos:] {
			n := len(string(r))
			if r == 0xFFFD {
				// could be an invalid byte (size 1) or a real U+FFFD (size 3)
				if strings.HasPrefix(cs[pos:], "�") {
					n = 3
				} else {
					n = 1
				}
			}
			return mkInt(32, uint64(r)), n
		}
	}
	b := strBytes(s)
	end := pos + 4
	if end > len(b) {
		end = len(b)
	}
	return ex.decodeRuneSym(b[pos:end])
}

func (ex *Exec) slice(fr *frame, ci *cinstr, in *ssa.Slice) Val {
	x := ex.op(fr, &ci.ops[0])
	get := func(i int, sv ssa.Value) (Int, bool) {
		if ci.ops[i].slot == -2 {
			return Int{}, false
		}
		v := ex.op(fr, &ci.ops[i]).(Int)
		if v.W != 64 {
			_, sg, _ := intInfo(sv.Type())
			v = ex.conv64(v, sg)
		}
		return v, true
	}
	lo, hasLo := get(1, in.Low)
	hi, hasHi := get(2, in.High)
	mx, hasMax := get(3, in.Max)
	switch xv := x.(type) {
	case string, symstr:
		b := strBytes(x)
		l, h := 0, len(b)
		if hasHi {
			h = ex.concBound(hi, len(b), ":")
		}
		if hasLo {
			l = ex.concBound(lo, h, "")
		}
		if cs, ok := x.(string); ok {
			return cs[l:h]
		}
		return mkStr(b[l:h])
	case []Val, *Val:
		var arr []Val
		if s, ok := xv.([]Val); ok {
			arr = s
		} else {
			p := xv.(*Val)
			if p == nil {
				panic(goPanic{ex.runtimeError("invalid memory address or nil pointer dereference")})
			}
			arr = []Val((*p).(array))
		}
		c := cap(arr)
		m := c
		if hasMax {
			m = ex.concBound(mx, c, "::")
		}
		h := len(arr)
		if hasHi {
			h = ex.concBound(hi, m, ":")
		}
		l := 0
		if hasLo {
			l = ex.concBound(lo, h, "")
		}
		if arr == nil && l == 0 && h == 0 {
			return []Val(nil)
		}
		return arr[l:h:m]
	}
	panic(unsupported{fmt.Sprintf("slice of %T", x)})
}

func (ex *Exec) typeAssert(in *ssa.TypeAssert, xval Val) Val {
	x := xval.(iface)
	ok := false
	_, isI := in.AssertedType.Underlying().(*types.Interface)
	if x.t != nil {
		if isI {
			if _, native := x.v.(nativeVal); native {
				ok = ex.nativeImplements(x, in.AssertedType.Underlying().(*types.Interface))
			} else {
				ok = types.Implements(x.t, in.AssertedType.Underlying().(*types.Interface))
			}
		} else {
			ok = types.Identical(x.t, in.AssertedType)
		}
	}
	var v Val
	if ok {
		if isI {
			v = x
		} else {
			v = x.v
		}
	} else {
		if !in.CommaOk {
			have := "nil"
			if x.t != nil {
				have = x.t.String()
			}
			panic(goPanic{ex.runtimeError("interface conversion: interface is " + have + ", not " + in.AssertedType.String())})
		}
		v = zero(in.AssertedType)
	}
	if in.CommaOk {
		return tuple{v, Bool{C: ok}}
	}
	return v
}

func (ex *Exec) stackString() string {
	var sb strings.Builder
	n := len(ex.stack)
	for i := n - 1; i >= 0 && i >= n-8; i-- {
		sb.WriteString(" < " + ex.stack[i].Name())
	}
	return sb.String()
}
