package main

// Generic fallback for pure standard-library string/byte helpers: when all
// arguments are concrete the real Go function is called through reflection.
// (A change to the library may start calling helpers the module did not use
// before; without this they would end the path as "unsupported".)

import (
	"bytes"
	"reflect"
	"strconv"
	"strings"
	"unicode"
	"unicode/utf8"
)

var nativeFuncs = map[string]interface{}{
	"strings.Contains": strings.Contains, "strings.ContainsAny": strings.ContainsAny, "strings.Index": strings.Index,
	"strings.IndexByte": strings.IndexByte, "strings.IndexRune": strings.IndexRune, "strings.IndexAny": strings.IndexAny,
	"strings.LastIndex": strings.LastIndex, "strings.LastIndexByte": strings.LastIndexByte,
	"strings.HasPrefix": strings.HasPrefix, "strings.HasSuffix": strings.HasSuffix, "strings.EqualFold": strings.EqualFold,
	"strings.ToLower": strings.ToLower, "strings.ToUpper": strings.ToUpper, "strings.Title": strings.Title,
	"strings.Trim": strings.Trim, "strings.TrimLeft": strings.TrimLeft, "strings.TrimRight": strings.TrimRight,
	"strings.TrimPrefix": strings.TrimPrefix, "strings.TrimSuffix": strings.TrimSuffix, "strings.Fields": strings.Fields,
	"strings.Replace": strings.Replace, "strings.ReplaceAll": strings.ReplaceAll, "strings.SplitN": strings.SplitN,
	"strings.Compare": strings.Compare, "strings.Cut": strings.Cut,
	"bytes.Contains": bytes.Contains, "bytes.Index": bytes.Index, "bytes.IndexByte": bytes.IndexByte, "bytes.LastIndex": bytes.LastIndex,
	"bytes.LastIndexByte": bytes.LastIndexByte, "bytes.HasPrefix": bytes.HasPrefix, "bytes.HasSuffix": bytes.HasSuffix,
	"bytes.TrimSpace": bytes.TrimSpace, "bytes.TrimLeft": bytes.TrimLeft, "bytes.TrimRight": bytes.TrimRight,
	"bytes.TrimPrefix": bytes.TrimPrefix, "bytes.TrimSuffix": bytes.TrimSuffix, "bytes.ToUpper": bytes.ToUpper,
	"bytes.Compare": bytes.Compare, "bytes.Count": bytes.Count, "bytes.ContainsAny": bytes.ContainsAny, "bytes.EqualFold": bytes.EqualFold,
	"bytes.ContainsRune": bytes.ContainsRune, "bytes.IndexAny": bytes.IndexAny, "bytes.IndexRune": bytes.IndexRune,
	"strconv.Atoi": strconv.Atoi, "strconv.ParseInt": strconv.ParseInt, "strconv.ParseUint": strconv.ParseUint, "strconv.ParseBool": strconv.ParseBool,
	"strconv.FormatInt": strconv.FormatInt, "strconv.Unquote": strconv.Unquote, "strconv.QuoteToASCII": strconv.QuoteToASCII, "strconv.AppendQuote": strconv.AppendQuote,
	"unicode.IsDigit": unicode.IsDigit, "unicode.IsLetter": unicode.IsLetter, "unicode.IsSpace": unicode.IsSpace, "unicode.IsUpper": unicode.IsUpper,
	"unicode.IsLower": unicode.IsLower, "unicode.IsPrint": unicode.IsPrint, "unicode.IsControl": unicode.IsControl, "unicode.ToLower": unicode.ToLower, "unicode.ToUpper": unicode.ToUpper,
	"unicode/utf8.RuneLen": utf8.RuneLen, "unicode/utf8.ValidString": utf8.ValidString, "unicode/utf8.Valid": utf8.Valid,
	"unicode/utf8.RuneCountInString": utf8.RuneCountInString, "unicode/utf8.RuneCount": utf8.RuneCount, "unicode/utf8.DecodeRuneInString": utf8.DecodeRuneInString,
	"unicode/utf8.DecodeLastRune": utf8.DecodeLastRune, "unicode/utf8.DecodeLastRuneInString": utf8.DecodeLastRuneInString, "unicode/utf8.ValidRune": utf8.ValidRune,
}

var errorRT = reflect.TypeOf((*error)(nil)).Elem()

// toGo converts an interpreter value to a Go value of type t (concrete data only).
func toGo(v Val, t reflect.Type) (reflect.Value, bool) {
	switch t.Kind() {
	case reflect.String:
		if s, ok := v.(string); ok {
			return reflect.ValueOf(s).Convert(t), true
		}
	case reflect.Bool:
		if b, ok := v.(Bool); ok && !b.sym() {
			return reflect.ValueOf(b.C).Convert(t), true
		}
	case reflect.Int, reflect.Int8, reflect.Int16, reflect.Int32, reflect.Int64:
		if i, ok := v.(Int); ok && !i.sym() {
			return reflect.ValueOf(i.signed()).Convert(t), true
		}
	case reflect.Uint, reflect.Uint8, reflect.Uint16, reflect.Uint32, reflect.Uint64:
		if i, ok := v.(Int); ok && !i.sym() {
			return reflect.ValueOf(i.C).Convert(t), true
		}
	case reflect.Slice:
		s, ok := v.([]Val)
		if !ok {
			return reflect.Value{}, false
		}
		out := reflect.MakeSlice(t, len(s), len(s))
		for i, e := range s {
			ev, ok := toGo(e, t.Elem())
			if !ok {
				return reflect.Value{}, false
			}
			out.Index(i).Set(ev)
		}
		if s == nil {
			return reflect.Zero(t), true
		}
		return out, true
	}
	return reflect.Value{}, false
}

func (ex *Exec) fromGo(v reflect.Value) Val {
	switch v.Kind() {
	case reflect.String:
		return v.String()
	case reflect.Bool:
		return Bool{C: v.Bool()}
	case reflect.Int, reflect.Int8, reflect.Int16, reflect.Int32, reflect.Int64:
		return mkInt(int(v.Type().Size())*8, uint64(v.Int()))
	case reflect.Uint, reflect.Uint8, reflect.Uint16, reflect.Uint32, reflect.Uint64:
		return mkInt(int(v.Type().Size())*8, v.Uint())
	case reflect.Slice:
		if v.IsNil() {
			return []Val(nil)
		}
		out := make([]Val, v.Len())
		for i := range out {
			out[i] = ex.fromGo(v.Index(i))
		}
		return out
	case reflect.Interface:
		if v.Type().Implements(errorRT) {
			if v.IsNil() {
				return iface{}
			}
			return ex.nativeError(v.Interface().(error))
		}
	}
	panic(unsupported{"native result of kind " + v.Kind().String()})
}

// nativeFallback calls a registered pure helper natively when every argument is concrete.
func (ex *Exec) nativeFallback(name string, args []Val) (Val, bool) {
	f, ok := nativeFuncs[name]
	if !ok {
		return nil, false
	}
	fv := reflect.ValueOf(f)
	ft := fv.Type()
	if ft.IsVariadic() || ft.NumIn() != len(args) {
		return nil, false
	}
	in := make([]reflect.Value, len(args))
	for i, a := range args {
		gv, ok := toGo(a, ft.In(i))
		if !ok {
			// symbolic argument: let the caller interpret the function from SSA when its package
			// is one of the interpreted ones (bytes, strings, unicode/utf8, ...), else give up
			if ex.canInterpret != nil && ex.canInterpret(name) {
				return nil, false
			}
			panic(unsupported{"native " + name + ": symbolic or unsupported argument"})
		}
		in[i] = gv
	}
	out := fv.Call(in)
	switch len(out) {
	case 0:
		return nil, true
	case 1:
		return ex.fromGo(out[0]), true
	}
	t := make(tuple, len(out))
	for i := range out {
		t[i] = ex.fromGo(out[i])
	}
	return t, true
}
