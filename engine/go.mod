module gosym

go 1.23

require (
	github.com/lucasjones/reggen v0.0.0-20200904144131-37ba4fa293bb
	golang.org/x/tools v0.29.0
)

require (
	golang.org/x/mod v0.22.0 // indirect
	golang.org/x/sync v0.10.0 // indirect
)
