package main

// Value model of the symbolic interpreter (close to x/tools' ssa/interp, with
// scalars that may carry SMT terms).

import (
	"fmt"
	"go/types"
	"strings"

	"golang.org/x/tools/go/ssa"
)

type Val interface{}

// Int is any integer value (all widths, signedness comes from the static type).
type Int struct {
	W int
	C uint64
	T *Term // non-nil: symbolic
}

type Bool struct {
	C bool
	T *Term
}

type structure []Val
type array []Val
type tuple []Val

type iface struct {
	t types.Type
	v Val
}

type closure struct {
	Fn  *ssa.Function
	Env []Val
}

// symstr is a string of concrete length whose bytes may be symbolic.
type symstr []Int

// opaqueStr is a string whose content (and length) is not modelled (formatted
// messages with symbolic arguments).
type opaqueStr struct{ tag string }

// nativeVal wraps a native Go object handled only by intrinsics.
type nativeVal struct{ v interface{} }

type gomap struct {
	keys []Val
	vals []Val
	idx  map[string]int // fast path for concrete string / int keys
}

type mapIter struct {
	keys []Val
	vals []Val
	i    int
}

type strIter struct {
	s   Val
	pos int
}

// symAddr is &arr[idx] with a symbolic (in-range) index.
type symAddr struct {
	arr []Val
	idx Int
}

// control-flow signals of the interpreter (Go panics)
type goPanic struct{ v Val }                // a Go-level panic of the interpreted program
type unsupported struct{ msg string }       // engine limitation: path inconclusive
type pathEnd struct{ reason string }        // path stops (assume failed, violation recorded, ...)
type fuelOut struct{ what string }          // instruction / depth budget exceeded

func (i Int) sym() bool  { return i.T != nil }
func (b Bool) sym() bool { return b.T != nil }

func mkInt(w int, c uint64) Int { return Int{W: w, C: c & maskw(w)} }

func (i Int) signed() int64 { return sextw(i.C, i.W) }

func intInfo(t types.Type) (w int, signed bool, ok bool) {
	b, isB := t.Underlying().(*types.Basic)
	if !isB {
		return 0, false, false
	}
	switch b.Kind() {
	case types.Int8:
		return 8, true, true
	case types.Uint8:
		return 8, false, true
	case types.Int16:
		return 16, true, true
	case types.Uint16:
		return 16, false, true
	case types.Int32, types.UntypedRune:
		return 32, true, true
	case types.Uint32:
		return 32, false, true
	case types.Int, types.Int64, types.UntypedInt:
		return 64, true, true
	case types.Uint, types.Uint64, types.Uintptr:
		return 64, false, true
	}
	return 0, false, false
}

func isString(t types.Type) bool {
	b, ok := t.Underlying().(*types.Basic)
	return ok && b.Info()&types.IsString != 0
}

func isFloat(t types.Type) bool {
	b, ok := t.Underlying().(*types.Basic)
	return ok && b.Info()&types.IsFloat != 0
}

func zero(t types.Type) Val {
	switch u := t.Underlying().(type) {
	case *types.Basic:
		switch {
		case u.Info()&types.IsBoolean != 0:
			return Bool{}
		case u.Info()&types.IsString != 0:
			return ""
		case u.Info()&types.IsFloat != 0:
			return float64(0)
		case u.Kind() == types.UnsafePointer:
			return (*Val)(nil)
		case u.Kind() == types.UntypedNil:
			return nil
		}
		if w, _, ok := intInfo(t); ok {
			return Int{W: w}
		}
		return nil
	case *types.Struct:
		s := make(structure, u.NumFields())
		for i := range s {
			s[i] = zero(u.Field(i).Type())
		}
		return s
	case *types.Array:
		a := make(array, u.Len())
		for i := range a {
			a[i] = zero(u.Elem())
		}
		return a
	case *types.Pointer:
		return (*Val)(nil)
	case *types.Slice:
		return []Val(nil)
	case *types.Interface:
		return iface{}
	case *types.Signature:
		return (*ssa.Function)(nil)
	case *types.Map:
		return (*gomap)(nil)
	case *types.Tuple:
		t := make(tuple, u.Len())
		for i := range t {
			t[i] = zero(u.At(i).Type())
		}
		return t
	case *types.Chan:
		return nil
	}
	return nil
}

func copyVal(v Val) Val {
	switch s := v.(type) {
	case structure:
		c := make(structure, len(s))
		for i := range s {
			c[i] = copyVal(s[i])
		}
		return c
	case array:
		c := make(array, len(s))
		for i := range s {
			c[i] = copyVal(s[i])
		}
		return c
	}
	return v
}

// store writes v into the cell, keeping addresses of sub-cells stable.
func store(addr *Val, v Val) {
	switch x := v.(type) {
	case structure:
		if dst, ok := (*addr).(structure); ok && len(dst) == len(x) {
			for i := range x {
				store(&dst[i], x[i])
			}
			return
		}
		*addr = copyVal(v)
	case array:
		if dst, ok := (*addr).(array); ok && len(dst) == len(x) {
			for i := range x {
				store(&dst[i], x[i])
			}
			return
		}
		*addr = copyVal(v)
	default:
		*addr = v
	}
}

// ---- strings

// strBytes returns the bytes of a string value (concrete or symbolic).
func strBytes(v Val) []Int {
	switch s := v.(type) {
	case string:
		r := make([]Int, len(s))
		for i := 0; i < len(s); i++ {
			r[i] = Int{W: 8, C: uint64(s[i])}
		}
		return r
	case symstr:
		return []Int(s)
	case opaqueStr:
		panic(unsupported{"bytes of opaque string " + s.tag})
	}
	panic(unsupported{fmt.Sprintf("strBytes of %T", v)})
}

// mkStr normalises a byte vector into string (all concrete) or symstr.
func mkStr(b []Int) Val {
	for _, x := range b {
		if x.sym() {
			return symstr(append([]Int(nil), b...))
		}
	}
	bs := make([]byte, len(b))
	for i, x := range b {
		bs[i] = byte(x.C)
	}
	return string(bs)
}

func strLen(v Val) int {
	switch s := v.(type) {
	case string:
		return len(s)
	case symstr:
		return len(s)
	case opaqueStr:
		panic(unsupported{"len of opaque string " + s.tag})
	}
	panic(unsupported{fmt.Sprintf("strLen of %T", v)})
}

func isOpaque(v Val) bool { _, ok := v.(opaqueStr); return ok }

// bytesOfSlice converts a []Val of byte Ints to []Int.
func bytesOfSlice(s []Val) []Int {
	r := make([]Int, len(s))
	for i, e := range s {
		r[i] = e.(Int)
	}
	return r
}

func sliceOfBytes(b []Int) []Val {
	r := make([]Val, len(b))
	for i, e := range b {
		r[i] = e
	}
	return r
}

func concreteBytes(b []Int) ([]byte, bool) {
	r := make([]byte, len(b))
	for i, e := range b {
		if e.sym() {
			return nil, false
		}
		r[i] = byte(e.C)
	}
	return r, true
}

// ---- maps

func concKey(k Val) (string, bool) {
	switch x := k.(type) {
	case string:
		return "s" + x, true
	case Int:
		if !x.sym() {
			return fmt.Sprintf("i%d:%d", x.W, x.C), true
		}
	case Bool:
		if !x.sym() {
			if x.C {
				return "bt", true
			}
			return "bf", true
		}
	case *Val:
		return fmt.Sprintf("p%p", x), true
	}
	return "", false
}

// ---- rendering for diagnostics / observations

func showVal(v Val) string {
	var sb strings.Builder
	show(&sb, v, 0)
	return sb.String()
}

func show(sb *strings.Builder, v Val, d int) {
	if d > 6 {
		sb.WriteString("…")
		return
	}
	switch x := v.(type) {
	case nil:
		sb.WriteString("nil")
	case Int:
		if x.sym() {
			fmt.Fprintf(sb, "<sym%d>", x.W)
		} else {
			fmt.Fprintf(sb, "%d", x.signed())
		}
	case Bool:
		if x.sym() {
			sb.WriteString("<symbool>")
		} else {
			fmt.Fprintf(sb, "%v", x.C)
		}
	case string:
		fmt.Fprintf(sb, "%q", x)
	case symstr:
		sb.WriteString("symstr[")
		for _, b := range x {
			if b.sym() {
				sb.WriteString("?")
			} else {
				fmt.Fprintf(sb, "%q", string(rune(b.C)))
			}
		}
		sb.WriteString("]")
	case opaqueStr:
		sb.WriteString("<opaque:" + x.tag + ">")
	case structure:
		sb.WriteString("{")
		for i, e := range x {
			if i > 0 {
				sb.WriteString(" ")
			}
			show(sb, e, d+1)
		}
		sb.WriteString("}")
	case array:
		sb.WriteString("[")
		for i, e := range x {
			if i > 0 {
				sb.WriteString(" ")
			}
			show(sb, e, d+1)
		}
		sb.WriteString("]")
	case []Val:
		if x == nil {
			sb.WriteString("nil[]")
			return
		}
		sb.WriteString("[]{")
		for i, e := range x {
			if i > 0 {
				sb.WriteString(" ")
			}
			if i > 40 {
				sb.WriteString("…")
				break
			}
			show(sb, e, d+1)
		}
		sb.WriteString("}")
	case tuple:
		sb.WriteString("(")
		for i, e := range x {
			if i > 0 {
				sb.WriteString(", ")
			}
			show(sb, e, d+1)
		}
		sb.WriteString(")")
	case iface:
		if x.t == nil {
			sb.WriteString("nil-iface")
		} else {
			sb.WriteString("iface(" + x.t.String() + ":")
			show(sb, x.v, d+1)
			sb.WriteString(")")
		}
	case *Val:
		if x == nil {
			sb.WriteString("nilptr")
		} else {
			sb.WriteString("&")
			show(sb, *x, d+1)
		}
	case *ssa.Function:
		if x == nil {
			sb.WriteString("nilfunc")
		} else {
			sb.WriteString("func:" + x.Name())
		}
	case *closure:
		sb.WriteString("closure:" + x.Fn.Name())
	case *gomap:
		if x == nil {
			sb.WriteString("nilmap")
		} else {
			fmt.Fprintf(sb, "map[%d]", len(x.keys))
		}
	case nativeVal:
		fmt.Fprintf(sb, "native(%T)", x.v)
	default:
		fmt.Fprintf(sb, "%T", v)
	}
}
