package main

// If-conversion of pure scalar regions: branch chains (`case 'a','b':`,
// `x || y`), pure diamonds, and summarisation of pure loop-free callees.
// Keeps one path per byte *class* instead of one per byte value.

import (
	"go/token"
	"go/types"
	"sync"

	"golang.org/x/tools/go/ssa"
)

var purityMu sync.Mutex
var purityInProgress = map[*ssa.Function]bool{}

func scalarType(t types.Type) bool {
	b, ok := t.Underlying().(*types.Basic)
	if !ok {
		return false
	}
	return b.Info()&(types.IsInteger|types.IsBoolean) != 0
}

func basicNonFloat(t types.Type) bool {
	b, ok := t.Underlying().(*types.Basic)
	if !ok {
		return false
	}
	return b.Info()&(types.IsInteger|types.IsBoolean|types.IsString) != 0
}

func pureInstr(in ssa.Instruction) bool {
	switch x := in.(type) {
	case *ssa.BinOp:
		if x.Op == token.QUO || x.Op == token.REM {
			return false
		}
		if !basicNonFloat(x.X.Type()) || !basicNonFloat(x.Y.Type()) {
			return false
		}
		if isString(x.X.Type()) && x.Op != token.EQL && x.Op != token.NEQ {
			return false
		}
		return true
	case *ssa.UnOp:
		if x.Op == token.MUL || x.Op == token.ARROW {
			return false
		}
		return scalarType(x.X.Type())
	case *ssa.Convert:
		_, _, a := intInfo(x.X.Type())
		_, _, b := intInfo(x.Type())
		return a && b
	case *ssa.ChangeType:
		return scalarType(x.X.Type())
	case *ssa.Call:
		if x.Call.IsInvoke() {
			return false
		}
		callee := x.Call.StaticCallee()
		if callee == nil || callee.Blocks == nil {
			return false
		}
		return funcIsPure(callee)
	case *ssa.Phi, *ssa.If, *ssa.Jump:
		return true
	}
	return false
}

func funcIsPure(fn *ssa.Function) bool {
	if c, ok := cfuncCache.Load(fn); ok {
		return c.(*cfunc).isPure
	}
	purityMu.Lock()
	if purityInProgress[fn] {
		purityMu.Unlock()
		return false
	}
	purityInProgress[fn] = true
	purityMu.Unlock()
	cf := getCFunc(fn)
	purityMu.Lock()
	delete(purityInProgress, fn)
	purityMu.Unlock()
	return cf.isPure
}

func analysePurity(cf *cfunc) {
	fn := cf.fn
	all := true
	for _, cb := range cf.blocks {
		cb.pure = true
		for i := range cb.instrs {
			in := cb.instrs[i].in
			if _, isRet := in.(*ssa.Return); isRet {
				cb.pure = false // a returning block is never part of an intra-function region
				continue
			}
			if !pureInstr(in) {
				cb.pure = false
				all = false
				break
			}
		}
	}
	// function-level purity
	cf.isPure = false
	if !all || len(fn.FreeVars) > 0 || fn.Recover != nil || len(cf.blocks) == 0 || len(cf.blocks) > 64 {
		return
	}
	if p := fnPackage(fn); p != nil && len(p.Pkg.Path()) > 10 && p.Pkg.Path()[len(p.Pkg.Path())-9:] == "zzverif/v" {
		return
	}
	for _, p := range fn.Params {
		if !scalarType(p.Type()) {
			return
		}
	}
	rs := fn.Signature.Results()
	if rs.Len() != 1 || !scalarType(rs.At(0).Type()) {
		return
	}
	// acyclic: topological order by DFS
	state := map[*cblock]int{}
	var order []*cblock
	ok := true
	var dfs func(b *cblock)
	dfs = func(b *cblock) {
		if state[b] == 1 {
			ok = false
			return
		}
		if state[b] == 2 {
			return
		}
		state[b] = 1
		for _, s := range b.succs {
			dfs(s)
		}
		state[b] = 2
		order = append(order, b)
	}
	dfs(cf.blocks[0])
	if !ok {
		return
	}
	for i, j := 0, len(order)-1; i < j; i, j = i+1, j-1 {
		order[i], order[j] = order[j], order[i]
	}
	cf.topo = order
	cf.isPure = true
}

type redge struct {
	from, to *cblock
	guard    *Term
}

func sameVal(a, b Val) bool {
	switch x := a.(type) {
	case Int:
		y, ok := b.(Int)
		return ok && x == y
	case Bool:
		y, ok := b.(Bool)
		return ok && x == y
	case string:
		y, ok := b.(string)
		return ok && x == y
	case *Val:
		y, ok := b.(*Val)
		return ok && x == y
	case *gomap:
		y, ok := b.(*gomap)
		return ok && x == y
	case *ssa.Function:
		y, ok := b.(*ssa.Function)
		return ok && x == y
	case *closure:
		y, ok := b.(*closure)
		return ok && x == y
	case nil:
		return b == nil
	}
	return false
}

func isScalarVal(v Val) bool {
	switch v.(type) {
	case Int, Bool:
		return true
	}
	return false
}

func predIndex(to, from *cblock) int {
	for i, p := range to.preds {
		if p == from {
			return i
		}
	}
	return -1
}

// mergePhi computes the phi values of block X for the given incoming edges
// as ite-terms. ok=false when a phi has non-scalar, differing inputs.
func (ex *Exec) mergePhi(fr *frame, X *cblock, inc []redge) ([]Val, bool) {
	return ex.mergePhiW(fr, X, inc, false)
}

// mergePhiW: allowWide=false refuses to merge differing 64-bit integers
// (indices, lengths, counters): turning control dependence into a symbolic
// index costs far more (ite chains over slices, later concretisation) than
// the fork it saves. Bytes, runes and booleans are merged.
func (ex *Exec) mergePhiW(fr *frame, X *cblock, inc []redge, allowWide bool) ([]Val, bool) {
	out := make([]Val, X.nphi)
	for k := 0; k < X.nphi; k++ {
		ci := &X.instrs[k]
		vals := make([]Val, len(inc))
		same := true
		for i, e := range inc {
			vals[i] = ex.op(fr, &ci.ops[predIndex(X, e.from)])
			if i > 0 && !sameVal(vals[i], vals[0]) {
				same = false
			}
		}
		if same {
			out[k] = vals[0]
			continue
		}
		for _, v := range vals {
			if !isScalarVal(v) {
				return nil, false
			}
			if i, ok := v.(Int); ok && i.W > 32 && !allowWide {
				return nil, false
			}
		}
		switch vals[0].(type) {
		case Int:
			r := ex.it(vals[len(vals)-1].(Int))
			for i := len(vals) - 2; i >= 0; i-- {
				r = ex.tb.Ite(inc[i].guard, ex.it(vals[i].(Int)), r)
			}
			out[k] = ex.mkI(r)
		case Bool:
			r := ex.bt(vals[len(vals)-1].(Bool))
			for i := len(vals) - 2; i >= 0; i-- {
				r = ex.tb.Ite(inc[i].guard, ex.bt(vals[i].(Bool)), r)
			}
			out[k] = ex.mkB(r)
		}
	}
	return out, true
}

// evalPureInstrs evaluates the non-phi, non-terminator instructions of a pure block.
func (ex *Exec) evalPureInstrs(fr *frame, X *cblock) {
	for k := X.nphi; k < len(X.instrs); k++ {
		ci := &X.instrs[k]
		switch in := ci.in.(type) {
		case *ssa.BinOp:
			fr.regs[ci.dst] = ex.binop(in.Op, in.X.Type(), ex.op(fr, &ci.ops[0]), ex.op(fr, &ci.ops[1]))
		case *ssa.UnOp:
			x := ex.op(fr, &ci.ops[0])
			switch in.Op {
			case token.NOT:
				fr.regs[ci.dst] = ex.bnot(x.(Bool))
			case token.SUB:
				xv := x.(Int)
				fr.regs[ci.dst] = ex.mkI(ex.tb.Un(OpNeg, ex.it(xv)))
			case token.XOR:
				xv := x.(Int)
				fr.regs[ci.dst] = ex.mkI(ex.tb.Un(OpBNot, ex.it(xv)))
			}
		case *ssa.Convert:
			fr.regs[ci.dst] = ex.conv(in.Type(), in.X.Type(), ex.op(fr, &ci.ops[0]))
		case *ssa.ChangeType:
			fr.regs[ci.dst] = ex.op(fr, &ci.ops[0])
		case *ssa.Call:
			callee := in.Call.StaticCallee()
			args := make([]Val, len(in.Call.Args))
			for i := range args {
				args[i] = ex.op(fr, &ci.ops[1+i])
			}
			fr.regs[ci.dst] = ex.evalPure(getCFunc(callee), args)
		}
	}
}

func (ex *Exec) orTerms(ts []*Term) *Term {
	r := ex.tb.False
	for _, t := range ts {
		r = ex.tb.Or(r, t)
	}
	return r
}

// mergeIf tries to treat the symbolic branch at the end of b as the head of a
// pure region and turns the region into one decision among its exits.
func (ex *Exec) mergeIf(fr *frame, b *cblock, c Bool) bool {
	if !b.succs[0].pure && !b.succs[1].pure {
		return false
	}
	tb := ex.tb
	region := map[*cblock]bool{b: true}
	frontier := []redge{{b, b.succs[0], c.T}, {b, b.succs[1], tb.Not(c.T)}}
	blocked := map[*cblock]bool{}
	expanded := 0
	for changed := true; changed && expanded < 48; {
		changed = false
		for fi := 0; fi < len(frontier); fi++ {
			X := frontier[fi].to
			if !X.pure || region[X] || blocked[X] {
				continue
			}
			okPreds := true
			for _, p := range X.preds {
				if !region[p] {
					okPreds = false
					break
				}
			}
			if !okPreds {
				continue
			}
			var inc, rest []redge
			for _, e := range frontier {
				if e.to == X {
					inc = append(inc, e)
				} else {
					rest = append(rest, e)
				}
			}
			phis, ok := ex.mergePhi(fr, X, inc)
			if !ok {
				blocked[X] = true
				continue
			}
			for k := 0; k < X.nphi; k++ {
				fr.regs[X.instrs[k].dst] = phis[k]
			}
			gs := make([]*Term, len(inc))
			for i, e := range inc {
				gs[i] = e.guard
			}
			g := ex.orTerms(gs)
			ex.evalPureInstrs(fr, X)
			ex.instrs += int64(len(X.instrs))
			last := X.instrs[len(X.instrs)-1]
			switch last.in.(type) {
			case *ssa.If:
				cc := ex.op(fr, &last.ops[0]).(Bool)
				if cc.T == nil {
					if cc.C {
						rest = append(rest, redge{X, X.succs[0], g})
					} else {
						rest = append(rest, redge{X, X.succs[1], g})
					}
				} else {
					rest = append(rest, redge{X, X.succs[0], tb.And(g, cc.T)}, redge{X, X.succs[1], tb.And(g, tb.Not(cc.T))})
				}
			case *ssa.Jump:
				rest = append(rest, redge{X, X.succs[0], g})
			}
			frontier = rest
			region[X] = true
			expanded++
			changed = true
			break
		}
	}
	if expanded == 0 {
		return false
	}
	// group exits by target, in order of first appearance
	var targets []*cblock
	byT := map[*cblock][]redge{}
	for _, e := range frontier {
		if e.guard == tb.False {
			continue
		}
		if _, ok := byT[e.to]; !ok {
			targets = append(targets, e.to)
		}
		byT[e.to] = append(byT[e.to], e)
	}
	if len(targets) == 0 {
		panic(pathEnd{"infeasible"})
	}
	for i, Y := range targets {
		edges := byT[Y]
		if i < len(targets)-1 {
			gs := make([]*Term, len(edges))
			for j, e := range edges {
				gs[j] = e.guard
			}
			if !ex.decide(ex.mkB(ex.orTerms(gs))) {
				continue
			}
		}
		ex.enterMerged(fr, Y, edges)
		return true
	}
	return true
}

func (ex *Exec) enterMerged(fr *frame, Y *cblock, edges []redge) {
	if Y.nphi == 0 || len(edges) == 1 {
		ex.jump(fr, edges[0].from, Y)
		return
	}
	phis, ok := ex.mergePhi(fr, Y, edges)
	if ok {
		ex.jump(fr, edges[0].from, Y)
		fr.phiOver = phis
		return
	}
	// non-scalar differing phi inputs: decide the edge
	for i, e := range edges {
		if i == len(edges)-1 || ex.decide(ex.mkB(e.guard)) {
			ex.jump(fr, e.from, Y)
			return
		}
	}
}

// evalPure evaluates a pure, loop-free scalar function symbolically as one
// term (no forking).
func (ex *Exec) evalPure(cf *cfunc, args []Val) Val {
	tb := ex.tb
	fr := &frame{cf: cf, regs: make([]Val, cf.nslots)}
	for i, s := range cf.params {
		fr.regs[s] = args[i]
	}
	inEdges := map[*cblock][]redge{}
	type ret struct {
		g *Term
		v Val
	}
	var rets []ret
	for bi, X := range cf.topo {
		inc := inEdges[X]
		var g *Term
		if bi == 0 {
			g = tb.True
		} else {
			if len(inc) == 0 {
				continue
			}
			gs := make([]*Term, len(inc))
			for i, e := range inc {
				gs[i] = e.guard
			}
			g = ex.orTerms(gs)
			if X.nphi > 0 {
				phis, ok := ex.mergePhiW(fr, X, inc, true)
				if !ok {
					panic(unsupported{"evalPure: phi merge in " + cf.fn.String()})
				}
				for k := 0; k < X.nphi; k++ {
					fr.regs[X.instrs[k].dst] = phis[k]
				}
			}
		}
		ex.instrs += int64(len(X.instrs))
		// instructions up to the terminator
		last := X.instrs[len(X.instrs)-1]
		if _, isRet := last.in.(*ssa.Return); isRet {
			// evaluate body (excluding the return itself)
			saved := X.instrs
			body := &cblock{b: X.b, instrs: saved[:len(saved)-1], nphi: X.nphi}
			ex.evalPureInstrs(fr, body)
			rets = append(rets, ret{g, ex.op(fr, &last.ops[0])})
			continue
		}
		ex.evalPureInstrs(fr, X)
		switch last.in.(type) {
		case *ssa.If:
			cc := ex.op(fr, &last.ops[0]).(Bool)
			if cc.T == nil {
				if cc.C {
					inEdges[X.succs[0]] = append(inEdges[X.succs[0]], redge{X, X.succs[0], g})
				} else {
					inEdges[X.succs[1]] = append(inEdges[X.succs[1]], redge{X, X.succs[1], g})
				}
			} else {
				inEdges[X.succs[0]] = append(inEdges[X.succs[0]], redge{X, X.succs[0], tb.And(g, cc.T)})
				inEdges[X.succs[1]] = append(inEdges[X.succs[1]], redge{X, X.succs[1], tb.And(g, tb.Not(cc.T))})
			}
		case *ssa.Jump:
			inEdges[X.succs[0]] = append(inEdges[X.succs[0]], redge{X, X.succs[0], g})
		}
	}
	if len(rets) == 0 {
		panic(unsupported{"evalPure: no return in " + cf.fn.String()})
	}
	switch rets[0].v.(type) {
	case Int:
		r := ex.it(rets[len(rets)-1].v.(Int))
		for i := len(rets) - 2; i >= 0; i-- {
			r = tb.Ite(rets[i].g, ex.it(rets[i].v.(Int)), r)
		}
		return ex.mkI(r)
	case Bool:
		r := ex.bt(rets[len(rets)-1].v.(Bool))
		for i := len(rets) - 2; i >= 0; i-- {
			r = tb.Ite(rets[i].g, ex.bt(rets[i].v.(Bool)), r)
		}
		return ex.mkB(r)
	}
	panic(unsupported{"evalPure: result kind"})
}
