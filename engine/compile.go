package main

// Pre-resolution of SSA functions into slot-indexed form (shared, read-only
// after construction).

import (
	"go/constant"
	"go/types"
	"sync"

	"golang.org/x/tools/go/ssa"
)

type operand struct {
	slot  int        // >=0 register; -1 constant in v; -2 absent; -3 global; -4 fresh zero of zt
	v     Val        // constant value
	g     *ssa.Global
	zt    types.Type
}

type cinstr struct {
	in  ssa.Instruction
	dst int
	ops []operand
}

type cblock struct {
	b      *ssa.BasicBlock
	instrs []cinstr
	nphi   int
	succs  []*cblock
	preds  []*cblock
	// purity for region merging (see merge.go)
	pure   bool
}

type cfunc struct {
	fn       *ssa.Function
	nslots   int
	blocks   []*cblock
	params   []int
	freevars []int
	recover  *cblock
	// summarisation info
	pureOnce sync.Once
	isPure   bool
	topo     []*cblock
	ninstr   int
}

var cfuncCache sync.Map // *ssa.Function -> *cfunc

func getCFunc(fn *ssa.Function) *cfunc {
	if c, ok := cfuncCache.Load(fn); ok {
		return c.(*cfunc)
	}
	c := compileFunc(fn)
	act, _ := cfuncCache.LoadOrStore(fn, c)
	return act.(*cfunc)
}

func constVal(c *ssa.Const) (Val, bool) {
	t := c.Type()
	if c.Value == nil {
		switch t.Underlying().(type) {
		case *types.Struct, *types.Array, *types.Tuple:
			return nil, false // needs a fresh copy per use
		}
		return zero(t), true
	}
	if tp, ok := t.(*types.TypeParam); ok {
		_ = tp
		return nil, false
	}
	if b, ok := t.Underlying().(*types.Basic); ok {
		switch {
		case b.Info()&types.IsBoolean != 0:
			return Bool{C: constant.BoolVal(c.Value)}, true
		case b.Info()&types.IsString != 0:
			return constant.StringVal(c.Value), true
		case b.Info()&types.IsInteger != 0:
			w, _, _ := intInfo(t)
			if i, ok := constant.Int64Val(constant.ToInt(c.Value)); ok {
				return mkInt(w, uint64(i)), true
			}
			u, _ := constant.Uint64Val(constant.ToInt(c.Value))
			return mkInt(w, u), true
		case b.Info()&types.IsFloat != 0:
			f, _ := constant.Float64Val(c.Value)
			return f, true
		}
	}
	panic(unsupported{"const " + c.String()})
}

func compileFunc(fn *ssa.Function) *cfunc {
	cf := &cfunc{fn: fn}
	slots := map[ssa.Value]int{}
	n := 0
	for _, p := range fn.Params {
		slots[p] = n
		cf.params = append(cf.params, n)
		n++
	}
	for _, fv := range fn.FreeVars {
		slots[fv] = n
		cf.freevars = append(cf.freevars, n)
		n++
	}
	for _, b := range fn.Blocks {
		for _, in := range b.Instrs {
			if v, ok := in.(ssa.Value); ok {
				slots[v] = n
				n++
			}
		}
	}
	cf.nslots = n
	opnd := func(v ssa.Value) operand {
		if v == nil {
			return operand{slot: -2}
		}
		switch x := v.(type) {
		case *ssa.Const:
			if cv, ok := constVal(x); ok {
				return operand{slot: -1, v: cv}
			}
			return operand{slot: -4, zt: x.Type()}
		case *ssa.Function:
			return operand{slot: -1, v: x}
		case *ssa.Builtin:
			return operand{slot: -1, v: x}
		case *ssa.Global:
			return operand{slot: -3, g: x}
		}
		s, ok := slots[v]
		if !ok {
			panic(unsupported{"no slot for " + v.Name() + " in " + fn.String()})
		}
		return operand{slot: s}
	}
	bmap := map[*ssa.BasicBlock]*cblock{}
	for _, b := range fn.Blocks {
		cb := &cblock{b: b}
		bmap[b] = cb
		cf.blocks = append(cf.blocks, cb)
	}
	for _, b := range fn.Blocks {
		cb := bmap[b]
		for _, s := range b.Succs {
			cb.succs = append(cb.succs, bmap[s])
		}
		for _, p := range b.Preds {
			cb.preds = append(cb.preds, bmap[p])
		}
		var rands []*ssa.Value
		for _, in := range b.Instrs {
			if _, ok := in.(*ssa.DebugRef); ok {
				continue
			}
			ci := cinstr{in: in, dst: -1}
			if v, ok := in.(ssa.Value); ok {
				ci.dst = slots[v]
			}
			if _, ok := in.(*ssa.Phi); ok {
				cb.nphi++
			}
			rands = in.Operands(rands[:0])
			for _, r := range rands {
				ci.ops = append(ci.ops, opnd(*r))
			}
			cb.instrs = append(cb.instrs, ci)
			cf.ninstr++
		}
	}
	if fn.Recover != nil {
		cf.recover = bmap[fn.Recover]
	}
	analysePurity(cf)
	return cf
}
