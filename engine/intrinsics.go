package main

// Models of the standard-library entry points the module calls, and the
// interception of the harness API package v.

import (
	"bytes"
	"fmt"
	"go/types"
	"sort"
	"strconv"
	"strings"
	"unicode/utf8"

	"golang.org/x/tools/go/ssa"
)

var noInitPkgs = map[string]bool{"errors": true, "unicode": true, "sort": true, "slices": true, "cmp": true}

const vPkg = modPath + "/zzverif/v"

func (ex *Exec) seedExternalGlobal(g *ssa.Global, p *Val) {
	if path := g.Pkg.Pkg.Path(); ex.env.interpPkgs[path] && !noInitPkgs[path] {
		ex.runInit(g.Pkg)
	}
}

func (ex *Exec) callInit(f *ssa.Function) {
	ex.call(f, nil, nil, nil)
}

func goString(v Val) (string, bool) {
	switch s := v.(type) {
	case string:
		return s, true
	}
	return "", false
}

func (ex *Exec) mustStr(v Val, what string) string {
	if s, ok := v.(string); ok {
		return s
	}
	panic(unsupported{what + ": symbolic string argument"})
}

func (ex *Exec) errorVal(msg Val) Val {
	p := new(Val)
	*p = structure{msg}
	return iface{t: ex.env.errorStringT, v: p}
}

func (ex *Exec) intrinsic(fn *ssa.Function, args []Val, caller *frame) (Val, bool) {
	if fn.Synthetic == "package initializer" {
		if p := fn.Pkg; p != nil && (ex.env.inModule(p) || (ex.env.interpPkgs[p.Pkg.Path()] && !noInitPkgs[p.Pkg.Path()])) {
			if !ex.initDone[p] {
				ex.initDone[p] = true
				return nil, false // interpret it
			}
		}
		return nil, true
	}
	name := fn.String()
	switch name {
	case "(*fmt.wrapError).Error", "(*fmt.wrapError).Unwrap":
		return nil, false // plain Go, interpreted
	}
	if strings.HasPrefix(name, vPkg+".") {
		return ex.vcall(name[len(vPkg)+1:], fn, args, caller), true
	}
	switch name {
	// ---- sync
	case "(*sync.Once).Do":
		p := args[0].(*Val)
		if !ex.onceDone[p] {
			ex.onceDone[p] = true
			ex.callValue(args[1], nil, caller)
		}
		return nil, true
	case "(*sync.RWMutex).Lock", "(*sync.Mutex).Lock":
		p := args[0].(*Val)
		if ex.locks[p] != 0 {
			panic(goPanic{ex.runtimeError("fatal error: all goroutines are asleep - deadlock! (Lock while held)")})
		}
		ex.locks[p] = -1
		return nil, true
	case "(*sync.RWMutex).Unlock", "(*sync.Mutex).Unlock":
		p := args[0].(*Val)
		if ex.locks[p] != -1 {
			panic(goPanic{ex.runtimeError("fatal error: sync: Unlock of unlocked RWMutex")})
		}
		ex.locks[p] = 0
		return nil, true
	case "(*sync.RWMutex).RLock":
		p := args[0].(*Val)
		if ex.locks[p] < 0 {
			panic(goPanic{ex.runtimeError("fatal error: all goroutines are asleep - deadlock! (RLock while write-locked)")})
		}
		ex.locks[p]++
		return nil, true
	case "(*sync.RWMutex).RUnlock":
		p := args[0].(*Val)
		if ex.locks[p] <= 0 {
			panic(goPanic{ex.runtimeError("fatal error: sync: RUnlock of unlocked RWMutex")})
		}
		ex.locks[p]--
		return nil, true
	case "(*sync.Pool).Get":
		p := args[0].(*Val)
		if l := ex.pools[p]; len(l) > 0 {
			if !(ex.run.PoolDrain && ex.decide(ex.mkB(ex.fresh("gc", 0)))) {
				x := l[len(l)-1]
				ex.pools[p] = l[:len(l)-1]
				return x, true
			}
			ex.pools[p] = nil
		}
		st := (*p).(structure)
		newf := st[len(st)-1]
		if f, ok := newf.(*ssa.Function); ok && f == nil {
			return iface{}, true
		}
		return ex.callValue(newf, nil, caller), true
	case "(*sync.Pool).Put":
		p := args[0].(*Val)
		ex.pools[p] = append(ex.pools[p], args[1])
		return nil, true

	// ---- errors / fmt
	case "errors.Is":
		return ex.errorsIs(args[0].(iface), args[1].(iface), caller), true
	case "errors.As":
		return ex.errorsAs(args[0].(iface), args[1].(iface), caller), true
	case "fmt.Sprintf":
		return ex.sprintf(args[0], args[1].([]Val), caller), true
	case "fmt.Errorf":
		va := args[1].([]Val)
		msg := ex.sprintf(args[0], va, caller)
		f, _ := args[0].(string)
		if i := strings.Index(f, "%w"); i >= 0 {
			// find the wrapped operand: index of %w among verbs
			n := 0
			for j := 0; j+1 < len(f); j++ {
				if f[j] == '%' {
					if f[j+1] == '%' {
						j++
						continue
					}
					if j == i {
						break
					}
					n++
				}
			}
			if n < len(va) {
				if wt := ex.env.wrapErrorT; wt != nil {
					p := new(Val)
					*p = structure{msg, va[n]}
					return iface{t: wt, v: p}, true
				}
			}
		}
		return ex.errorVal(msg), true

	// ---- strings / bytes / strconv (concrete: native; symbolic: modelled where needed)
	case "strings.Count":
		return mkInt(64, uint64(strings.Count(ex.mustStr(args[0], name), ex.mustStr(args[1], name)))), true
	case "strings.Repeat":
		n := args[1].(Int)
		if n.sym() {
			neg := ex.mkB(ex.tb.Bin(OpSlt, n.T, ex.tb.Const(0, 64)))
			if ex.decide(neg) {
				panic(goPanic{iface{t: types.Typ[types.String], v: "strings: negative Repeat count"}})
			}
			n = mkInt(64, ex.choose(n))
		}
		if n.signed() < 0 {
			panic(goPanic{iface{t: types.Typ[types.String], v: "strings: negative Repeat count"}})
		}
		if n.signed() > 1<<20 {
			panic(unsupported{"strings.Repeat count too large"})
		}
		return strings.Repeat(ex.mustStr(args[0], name), int(n.C)), true
	case "strings.Join":
		elems := args[0].([]Val)
		sep := strBytes(args[1])
		var out []Int
		for i, e := range elems {
			if i > 0 {
				out = append(out, sep...)
			}
			if isOpaque(e) {
				ex.opaqueN++
				return opaqueStr{fmt.Sprintf("join%d", ex.opaqueN)}, true
			}
			out = append(out, strBytes(e)...)
		}
		return mkStr(out), true
	case "strings.ContainsRune":
		r := args[1].(Int)
		if r.sym() || r.C >= 0x80 {
			panic(unsupported{"strings.ContainsRune non-ASCII/symbolic rune"})
		}
		res := Bool{C: false}
		for _, b := range strBytes(args[0]) {
			res = ex.bor(res, ex.equal(b, mkInt(8, r.C)))
		}
		return res, true
	case "strings.Split":
		return ex.stringsSplit(args[0], args[1]), true
	case "strings.TrimSpace":
		return ex.trimSpace(args[0]), true
	case "strconv.Itoa":
		i := args[0].(Int)
		if i.sym() {
			if r, ok := ex.formatSmallSym(i, true); ok {
				return r, true
			}
			i = mkInt(64, ex.choose(i)) // one path per value (bounded by choose)
		}
		return strconv.Itoa(int(i.signed())), true
	case "strconv.FormatUint":
		i := args[0].(Int)
		if i.sym() && args[1].(Int).C == 10 {
			if r, ok := ex.formatSmallSym(i, false); ok {
				return r, true
			}
		}
		if i.sym() {
			i = mkInt(64, ex.choose(i))
		}
		return strconv.FormatUint(i.C, int(args[1].(Int).C)), true
	case "strconv.FormatBool":
		b := args[0].(Bool)
		if b.sym() {
			if ex.decide(b) {
				return "true", true
			}
			return "false", true
		}
		return strconv.FormatBool(b.C), true
	case "strconv.Quote":
		s, ok := args[0].(string)
		if !ok {
			if sb, isSym := args[0].(symstr); isSym && len(sb) == 1 {
				// one symbolic byte: printable ASCII stays symbolic, anything else is concretised
				c := sb[0]
				tb := ex.tb
				plain := tb.And(tb.And(tb.Bin(OpUle, tb.Const(0x20, 8), c.T), tb.Bin(OpUle, c.T, tb.Const(0x7e, 8))),
					tb.And(tb.Not(tb.Eq(c.T, tb.Const('"', 8))), tb.Not(tb.Eq(c.T, tb.Const('\\', 8)))))
				if ex.decide(ex.mkB(plain)) {
					return symstr{mkInt(8, '"'), c, mkInt(8, '"')}, true
				}
				cv := ex.choose(c)
				return strconv.Quote(string([]byte{byte(cv)})), true
			}
			ex.opaqueN++
			return opaqueStr{fmt.Sprintf("quote%d", ex.opaqueN)}, true
		}
		return strconv.Quote(s), true
	// byte / substring search over symbolic data: the position is an if-then-else chain over the
	// (concrete) candidate offsets, so no path is forked
	case "strings.Index", "strings.Contains", "internal/stringslite.Index", "strings.IndexByte", "internal/stringslite.IndexByte",
		"internal/bytealg.IndexByteString", "bytes.Index", "bytes.Contains", "bytes.IndexByte", "internal/bytealg.IndexByte",
		"internal/bytealg.Index", "internal/bytealg.IndexString", "internal/bytealg.Count", "internal/bytealg.CountString":
		if r, ok := ex.symSearch(name, args); ok {
			return r, true
		}
	case "bytes.Equal":
		a, _ := args[0].([]Val)
		b, _ := args[1].([]Val)
		return ex.strEq(mkStr(bytesOfSlice(a)), mkStr(bytesOfSlice(b))), true
	case "bytes.ToLower":
		a, _ := args[0].([]Val)
		out := make([]Val, len(a))
		for i, e := range a {
			x := e.(Int)
			if !x.sym() {
				if x.C >= 0x80 {
					panic(unsupported{"bytes.ToLower non-ASCII"})
				}
				out[i] = mkInt(8, uint64(bytes.ToLower([]byte{byte(x.C)})[0]))
				continue
			}
			// ASCII only: assume / fork on >= 0x80
			hi := ex.mkB(ex.tb.Bin(OpUle, ex.tb.Const(0x80, 8), x.T))
			if ex.decide(hi) {
				panic(unsupported{"bytes.ToLower non-ASCII symbolic byte"})
			}
			up := ex.tb.And(ex.tb.Bin(OpUle, ex.tb.Const('A', 8), x.T), ex.tb.Bin(OpUle, x.T, ex.tb.Const('Z', 8)))
			out[i] = ex.mkI(ex.tb.Ite(up, ex.tb.Bin(OpAdd, x.T, ex.tb.Const(32, 8)), x.T))
		}
		return out, true
	case "sort.Strings":
		sl := args[0].([]Val)
		for _, e := range sl {
			if _, ok := e.(string); !ok {
				panic(unsupported{"sort.Strings symbolic"})
			}
		}
		sort.SliceStable(sl, func(i, j int) bool { return sl[i].(string) < sl[j].(string) })
		return nil, true
	case "sort.Slice", "sort.SliceStable":
		// insertion sort driven by the interpreted less(i, j) closure (operates on the slice in place)
		xi := args[0].(iface)
		sl, _ := xi.v.([]Val)
		for i := 1; i < len(sl); i++ {
			for j := i; j > 0; j-- {
				lt, ok := ex.callValue(args[1], []Val{mkInt(64, uint64(j)), mkInt(64, uint64(j-1))}, caller).(Bool)
				if !ok {
					panic(unsupported{"sort.Slice less result"})
				}
				if !ex.decide(lt) {
					break
				}
				sl[j], sl[j-1] = sl[j-1], sl[j]
			}
		}
		return nil, true
	case "sort.Ints":
		s := args[0].([]Val)
		for _, e := range s {
			if e.(Int).sym() {
				panic(unsupported{"sort.Ints symbolic"})
			}
		}
		sort.SliceStable(s, func(i, j int) bool { return s[i].(Int).signed() < s[j].(Int).signed() })
		return nil, true

	// ---- utf8
	case "unicode/utf8.DecodeRune":
		b := bytesOfSlice(args[0].([]Val))
		if cb, ok := concreteBytes(b); ok {
			r, n := utf8.DecodeRune(cb)
			return tuple{mkInt(32, uint64(r)), mkInt(64, uint64(n))}, true
		}
		if len(b) > 4 {
			b = b[:4]
		}
		r, n := ex.decodeRuneSym(b)
		return tuple{r, mkInt(64, uint64(n))}, true
	case "unicode/utf8.EncodeRune":
		dst := args[0].([]Val)
		r := args[1].(Int)
		var enc []Int
		if r.sym() {
			enc = ex.encodeRuneSym(r)
		} else {
			var buf [4]byte
			n := utf8.EncodeRune(buf[:], rune(r.signed()))
			enc = strBytes(string(buf[:n]))
		}
		if len(dst) < len(enc) {
			ex.boundsPanic("index out of range (utf8.EncodeRune)")
		}
		for i, e := range enc {
			dst[i] = e
		}
		return mkInt(64, uint64(len(enc))), true

	// ---- strings.Builder (uses unsafe in the real implementation)
	case "(*strings.Builder).WriteString":
		p := args[0].(*Val)
		st := (*p).(structure)
		buf, _ := st[1].([]Val)
		if isOpaque(args[1]) {
			panic(unsupported{"Builder.WriteString opaque"})
		}
		sb := strBytes(args[1])
		for _, e := range sb {
			buf = append(buf, e)
		}
		st[1] = buf
		return tuple{mkInt(64, uint64(len(sb))), iface{}}, true
	case "(*strings.Builder).String":
		p := args[0].(*Val)
		st := (*p).(structure)
		buf, _ := st[1].([]Val)
		return mkStr(bytesOfSlice(buf)), true
	case "(*strings.Builder).Len":
		p := args[0].(*Val)
		st := (*p).(structure)
		buf, _ := st[1].([]Val)
		return mkInt(64, uint64(len(buf))), true
	}
	if r, ok := ex.intrinsic2(name, fn, args, caller); ok {
		return r, true
	}
	ex.canInterpret = func(string) bool {
		p := fnPackage(fn)
		return p != nil && ex.env.interpPkgs[p.Pkg.Path()] && fn.Blocks != nil
	}
	if r, ok := ex.nativeFallback(name, args); ok {
		return r, true
	}
	if p := fnPackage(fn); p != nil && ex.env.interpPkgs[p.Pkg.Path()] && fn.Blocks != nil {
		return nil, false
	}
	if p := fnPackage(fn); p == nil && fn.Blocks != nil {
		// synthetic wrapper without package (e.g. bound method of an allowed type)
		if fn.Signature.Recv() != nil || strings.Contains(fn.Name(), "$bound") || strings.Contains(fn.Name(), "$thunk") {
			return nil, false
		}
	}
	panic(unsupported{"intrinsic " + name})
}

// ---- errors.Is / As

func (ex *Exec) unwrap(e iface, caller *frame) (iface, bool) {
	if e.t == nil {
		return iface{}, false
	}
	if _, ok := e.v.(nativeVal); ok {
		return iface{}, false
	}
	ms := ex.env.prog.MethodSets.MethodSet(e.t)
	for i := 0; i < ms.Len(); i++ {
		if ms.At(i).Obj().Name() == "Unwrap" {
			fn := ex.env.prog.MethodValue(ms.At(i))
			if fn == nil || fn.Signature.Results().Len() != 1 {
				return iface{}, false
			}
			r := ex.call(fn, []Val{e.v}, nil, caller)
			if ri, ok := r.(iface); ok {
				return ri, ri.t != nil
			}
			return iface{}, false
		}
	}
	return iface{}, false
}

func comparableType(t types.Type) bool { return types.Comparable(t) }

func (ex *Exec) errorsIs(err, target iface, caller *frame) Val {
	if err.t == nil || target.t == nil {
		return Bool{C: err.t == nil && target.t == nil}
	}
	for n := 0; n < 50; n++ {
		if types.Identical(err.t, target.t) && comparableType(err.t) {
			if ex.decide(ex.equal(err, target)) {
				return Bool{C: true}
			}
		}
		// Is method
		if _, native := err.v.(nativeVal); !native {
			ms := ex.env.prog.MethodSets.MethodSet(err.t)
			for i := 0; i < ms.Len(); i++ {
				if ms.At(i).Obj().Name() == "Is" {
					if fn := ex.env.prog.MethodValue(ms.At(i)); fn != nil && fn.Signature.Params().Len() == 1 {
						if b, ok := ex.call(fn, []Val{err.v, target}, nil, caller).(Bool); ok && ex.decide(b) {
							return Bool{C: true}
						}
					}
				}
			}
		}
		next, ok := ex.unwrap(err, caller)
		if !ok {
			return Bool{C: false}
		}
		err = next
	}
	return Bool{C: false}
}

func (ex *Exec) errorsAs(err, target iface, caller *frame) Val {
	if target.t == nil {
		panic(goPanic{ex.runtimeError("errors: target cannot be nil")})
	}
	pt, ok := target.t.Underlying().(*types.Pointer)
	if !ok {
		panic(goPanic{ex.runtimeError("errors: target must be a non-nil pointer")})
	}
	et := pt.Elem()
	for n := 0; n < 50 && err.t != nil; n++ {
		if it, isI := et.Underlying().(*types.Interface); isI {
			if types.Implements(err.t, it) {
				store(target.v.(*Val), err)
				return Bool{C: true}
			}
		} else if types.Identical(err.t, et) {
			store(target.v.(*Val), err.v)
			return Bool{C: true}
		}
		next, ok := ex.unwrap(err, caller)
		if !ok {
			break
		}
		err = next
	}
	return Bool{C: false}
}

// ---- strings helpers with symbolic content

func (ex *Exec) isSpaceByte(b Int) Bool {
	// ASCII white space as in strings.TrimSpace for bytes < 0x80: \t \n \v \f \r ' ' (0x85, 0xA0 are multi-byte in UTF-8)
	r := Bool{C: false}
	for _, c := range []uint64{' ', '\t', '\n', '\v', '\f', '\r'} {
		r = ex.bor(r, ex.equal(b, mkInt(8, c)))
	}
	return r
}

func (ex *Exec) trimSpace(s Val) Val {
	if cs, ok := s.(string); ok {
		return strings.TrimSpace(cs)
	}
	b := strBytes(s)
	// non-ASCII symbolic bytes: not modelled (Unicode spaces)
	lo, hi := 0, len(b)
	for lo < hi {
		if b[lo].sym() {
			if ex.decide(ex.mkB(ex.tb.Bin(OpUle, ex.tb.Const(0x80, 8), b[lo].T))) {
				panic(unsupported{"TrimSpace: non-ASCII symbolic byte"})
			}
		} else if b[lo].C >= 0x80 {
			break
		}
		if !ex.decide(ex.isSpaceByte(b[lo])) {
			break
		}
		lo++
	}
	for hi > lo {
		if b[hi-1].sym() {
			if ex.decide(ex.mkB(ex.tb.Bin(OpUle, ex.tb.Const(0x80, 8), b[hi-1].T))) {
				panic(unsupported{"TrimSpace: non-ASCII symbolic byte"})
			}
		} else if b[hi-1].C >= 0x80 {
			break
		}
		if !ex.decide(ex.isSpaceByte(b[hi-1])) {
			break
		}
		hi--
	}
	return mkStr(b[lo:hi])
}

func (ex *Exec) stringsSplit(s, sep Val) Val {
	if cs, ok := s.(string); ok {
		if csep, ok := sep.(string); ok {
			parts := strings.Split(cs, csep)
			out := make([]Val, len(parts))
			for i, p := range parts {
				out[i] = p
			}
			return out
		}
	}
	sp := ex.mustStr(sep, "strings.Split separator")
	if len(sp) != 1 {
		panic(unsupported{"strings.Split: symbolic subject with multi-byte separator"})
	}
	b := strBytes(s)
	out := []Val{}
	start := 0
	for i := range b {
		if ex.decide(ex.equal(b[i], mkInt(8, uint64(sp[0])))) {
			out = append(out, mkStr(b[start:i]))
			start = i + 1
		}
	}
	out = append(out, mkStr(b[start:]))
	return out
}

// ---- fmt.Sprintf

type fmtStringer struct{ s string }

func (f fmtStringer) String() string { return f.s }

type fmtError struct{ s string }

func (f fmtError) Error() string { return f.s }

func typeStr(t types.Type) string {
	return types.TypeString(t, func(p *types.Package) string { return p.Name() })
}

// fmtArg converts an interpreter value into something fmt can print, or
// reports a symbolic string / opaque.
func (ex *Exec) fmtArg(a Val, caller *frame) (goVal interface{}, symBytes []Int, opaque bool) {
	switch x := a.(type) {
	case iface:
		if x.t == nil {
			return nil, nil, false
		}
		if nv, ok := x.v.(nativeVal); ok {
			return nv.v, nil, false
		}
		ms := ex.env.prog.MethodSets.MethodSet(x.t)
		for _, mname := range []string{"Error", "String"} {
			for i := 0; i < ms.Len(); i++ {
				if ms.At(i).Obj().Name() != mname {
					continue
				}
				sig := ms.At(i).Type().(*types.Signature)
				if sig.Params().Len() != 0 || sig.Results().Len() != 1 || !isString(sig.Results().At(0).Type()) {
					continue
				}
				fn := ex.env.prog.MethodValue(ms.At(i))
				if fn == nil {
					continue
				}
				if p, ok := x.v.(*Val); ok && p == nil {
					return "<nil>", nil, false
				}
				r := ex.call(fn, []Val{x.v}, nil, caller)
				switch s := r.(type) {
				case string:
					if mname == "Error" {
						return fmtError{s}, nil, false
					}
					return fmtStringer{s}, nil, false
				case symstr:
					return nil, []Int(s), false
				default:
					return nil, nil, true
				}
			}
		}
		g, sb, op := ex.fmtArg(x.v, caller)
		if sb == nil && !op {
			// typed basic values: keep named type out (only %v/%d/%s use)
			_ = g
		}
		return g, sb, op
	case Int:
		if x.sym() {
			return nil, nil, true
		}
		return x.signed(), nil, false
	case Bool:
		if x.sym() {
			return nil, nil, true
		}
		return x.C, nil, false
	case string:
		return x, nil, false
	case symstr:
		return nil, []Int(x), false
	case opaqueStr:
		return nil, nil, true
	case float64:
		return x, nil, false
	case []Val:
		allB := true
		for _, e := range x {
			if i, ok := e.(Int); !ok || i.W != 8 {
				allB = false
			}
		}
		if allB {
			b := bytesOfSlice(x)
			if cb, ok := concreteBytes(b); ok {
				return cb, nil, false
			}
			return nil, b, false
		}
		return fmt.Sprintf("%d items", len(x)), nil, false
	case *Val:
		if x == nil {
			return nil, nil, false
		}
		return fmtStringer{ex.ptrToken(x)}, nil, false
	case nil:
		return nil, nil, false
	}
	return fmtStringer{showVal(a)}, nil, false
}

func (ex *Exec) ptrToken(p *Val) string {
	if ex.ptrIDs == nil {
		ex.ptrIDs = map[*Val]int{}
	}
	id, ok := ex.ptrIDs[p]
	if !ok {
		id = len(ex.ptrIDs) + 1
		ex.ptrIDs[p] = id
	}
	return fmt.Sprintf("0xc%09x", id*16)
}

func (ex *Exec) sprintf(format Val, va []Val, caller *frame) Val {
	f, ok := format.(string)
	if !ok {
		ex.opaqueN++
		return opaqueStr{fmt.Sprintf("fmt%d", ex.opaqueN)}
	}
	var out []Int
	opaque := false
	argi := 0
	emit := func(s string) { out = append(out, strBytes(s)...) }
	for i := 0; i < len(f); i++ {
		if f[i] != '%' {
			out = append(out, mkInt(8, uint64(f[i])))
			continue
		}
		j := i + 1
		for j < len(f) && strings.IndexByte("+-# 0123456789.", f[j]) >= 0 {
			j++
		}
		if j >= len(f) {
			emit("%!(NOVERB)")
			break
		}
		verb := f[j]
		spec := f[i : j+1]
		i = j
		if verb == '%' {
			emit("%")
			continue
		}
		if argi >= len(va) {
			emit("%!" + string(verb) + "(MISSING)")
			continue
		}
		a := va[argi]
		argi++
		switch verb {
		case 'T':
			if ai, ok := a.(iface); ok && ai.t != nil {
				emit(typeStr(ai.t))
			} else {
				emit("<nil>")
			}
			continue
		case 'p':
			if ai, ok := a.(iface); ok {
				if p, ok := ai.v.(*Val); ok && p != nil {
					emit(ex.ptrToken(p))
					continue
				}
			}
			emit("0x0")
			continue
		case 'w':
			spec = spec[:len(spec)-1] + "v"
		}
		g, sb, op := ex.fmtArg(a, caller)
		switch {
		case op:
			opaque = true
		case sb != nil:
			if verb == 's' || verb == 'v' || verb == 'w' {
				out = append(out, sb...)
			} else {
				opaque = true
			}
		default:
			emit(fmt.Sprintf(spec, g))
		}
	}
	if argi < len(va) {
		emit("%!(EXTRA ")
		for k := argi; k < len(va); k++ {
			if k > argi {
				emit(", ")
			}
			if ai, ok := va[k].(iface); ok && ai.t != nil {
				emit(typeStr(ai.t) + "=?")
			} else {
				emit("<nil>")
			}
		}
		emit(")")
	}
	if opaque {
		ex.opaqueN++
		return opaqueStr{fmt.Sprintf("fmt%d", ex.opaqueN)}
	}
	return mkStr(out)
}

// ---- native values

func (ex *Exec) nativeMethod(nv nativeVal, name string, args []Val) Val {
	switch name {
	case "Error":
		if e, ok := nv.v.(error); ok {
			return e.Error()
		}
	case "String":
		if s, ok := nv.v.(fmt.Stringer); ok {
			return s.String()
		}
	}
	panic(unsupported{fmt.Sprintf("native method %T.%s", nv.v, name)})
}

func (ex *Exec) nativeImplements(x iface, it *types.Interface) bool {
	nv := x.v.(nativeVal)
	if it.NumMethods() == 1 && it.Method(0).Name() == "Error" {
		_, ok := nv.v.(error)
		return ok
	}
	return it.NumMethods() == 0
}

func (ex *Exec) nativeError(e error) Val {
	if e == nil {
		return iface{}
	}
	return ex.errorVal(e.Error())
}

// formatSmallSym renders a symbolic non-negative integer below 100 in decimal
// as a string of one or two *symbolic* digits (one path per digit count
// instead of one per value). ok=false: the value may be negative or >= 100.
func (ex *Exec) formatSmallSym(i Int, signed bool) (Val, bool) {
	tb := ex.tb
	t := i.T
	w := i.W
	if signed {
		if ex.decide(ex.mkB(tb.Bin(OpSlt, t, tb.Const(0, w)))) {
			return nil, false
		}
	}
	digit := func(x *Term) Int { return ex.mkI(tb.Bin(OpAdd, tb.Resize(x, 8, false), tb.Const('0', 8))) }
	if ex.decide(ex.mkB(tb.Bin(OpUlt, t, tb.Const(10, w)))) {
		return symstr{digit(t)}, true
	}
	if ex.decide(ex.mkB(tb.Bin(OpUlt, t, tb.Const(100, w)))) {
		return symstr{digit(tb.Bin(OpUDiv, t, tb.Const(10, w))), digit(tb.Bin(OpURem, t, tb.Const(10, w)))}, true
	}
	return nil, false
}

// symSearch models the search primitives when an argument holds symbolic bytes (false: all
// concrete, or an argument form it does not know; the caller goes on to the native shortcut).
func (ex *Exec) symSearch(name string, args []Val) (Val, bool) {
	seq := func(v Val) ([]Int, bool) {
		switch x := v.(type) {
		case string, symstr:
			return strBytes(x), true
		case []Val:
			out := make([]Int, len(x))
			for i, e := range x {
				b, ok := e.(Int)
				if !ok {
					return nil, false
				}
				out[i] = b
			}
			return out, true
		case Int:
			return []Int{x}, true
		}
		return nil, false
	}
	if len(args) != 2 {
		return nil, false
	}
	h, ok1 := seq(args[0])
	n, ok2 := seq(args[1])
	if !ok1 || !ok2 {
		return nil, false
	}
	anySym := false
	for _, b := range h {
		anySym = anySym || b.sym()
	}
	for _, b := range n {
		anySym = anySym || b.sym()
	}
	if !anySym {
		return nil, false
	}
	match := func(i int) Bool {
		m := Bool{C: true}
		for j := range n {
			m = ex.band(m, ex.equal(h[i+j], n[j]))
		}
		return m
	}
	if strings.Contains(name, "Count") {
		// a single byte is counted (bytealg.Count*)
		cnt := ex.tb.Const(0, 64)
		for i := range h {
			cnt = ex.tb.Bin(OpAdd, cnt, ex.tb.Ite(ex.bt(match(i)), ex.tb.Const(1, 64), ex.tb.Const(0, 64)))
		}
		return ex.mkI(cnt), true
	}
	res := ex.tb.Const(^uint64(0), 64)
	if len(n) == 0 {
		res = ex.tb.Const(0, 64)
	} else {
		for i := len(h) - len(n); i >= 0; i-- {
			res = ex.tb.Ite(ex.bt(match(i)), ex.tb.Const(uint64(i), 64), res)
		}
	}
	if strings.HasSuffix(name, "Contains") {
		return ex.mkB(ex.tb.Not(ex.tb.Eq(res, ex.tb.Const(^uint64(0), 64)))), true
	}
	return ex.mkI(res), true
}
