package main

import (
	"golang.org/x/tools/go/ssa"
)

// intrinsic2: heavier library models (regexp, time, net, encoding/json, reggen) - see stdmodels.go.
func (ex *Exec) intrinsic2(name string, fn *ssa.Function, args []Val, caller *frame) (Val, bool) {
	switch name {
	case "(*fmt.wrapError).Error", "(*fmt.wrapError).Unwrap":
		return nil, false
	}
	return ex.stdModel(name, fn, args, caller)
}
