package main

import (
	"golang.org/x/tools/go/ssa"
)

// intrinsic2: heavier library models (regexp, time, net, encoding/json, reggen) - see stdmodels.go.
func (ex *Exec) intrinsic2(name string, fn *ssa.Function, args []Val, caller *frame) (Val, bool) {
	return ex.stdModel(name, fn, args, caller)
}
