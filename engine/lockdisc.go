package main

// Lock discipline ("lockset") checking along symbolic paths, for the data-race clause of C19.
// A struct that holds a sync.RWMutex / sync.Mutex field directly guards its other fields with it:
// inside the methods of that struct type, reading a guarded field (or the map it refers to)
// requires the mutex to be held (shared or exclusive), writing it requires the exclusive lock.
// The engine runs one goroutine, so the lock state at each access is exact for the path; if every
// access on every path holds the lock appropriately, no two method calls from different goroutines
// can race on that state. A violation is confirmed natively by the race detector (replay.go).

import (
	"go/types"
	"sync"

	"golang.org/x/tools/go/ssa"
)

var mutexFieldCache sync.Map // *types.Struct -> int (field index of the mutex, -1 if none)

func mutexField(st *types.Struct) int {
	if v, ok := mutexFieldCache.Load(st); ok {
		return v.(int)
	}
	idx := -1
	for i := 0; i < st.NumFields(); i++ {
		if n, ok := st.Field(i).Type().(*types.Named); ok && n.Obj().Pkg() != nil && n.Obj().Pkg().Path() == "sync" &&
			(n.Obj().Name() == "RWMutex" || n.Obj().Name() == "Mutex") {
			idx = i
			break
		}
	}
	mutexFieldCache.Store(st, idx)
	return idx
}

// methodOf reports whether fn is a method (or a closure inside a method) of the named struct type t.
func methodOf(fn *ssa.Function, t types.Type) bool {
	for f := fn; f != nil; f = f.Parent() {
		if r := f.Signature.Recv(); r != nil {
			rt := r.Type()
			if p, ok := rt.(*types.Pointer); ok {
				rt = p.Elem()
			}
			return types.Identical(rt, t)
		}
		// bound method closures and synthetic wrappers carry the receiver as first free variable / param
	}
	return false
}

// guardField is called for FieldAddr results when lock discipline is on.
func (ex *Exec) guardField(fn *ssa.Function, in *ssa.FieldAddr, base *Val, res *Val) {
	pt, ok := in.X.Type().Underlying().(*types.Pointer)
	if !ok {
		return
	}
	named := pt.Elem()
	st, ok := named.Underlying().(*types.Struct)
	if !ok {
		return
	}
	mi := mutexField(st)
	if mi < 0 || mi == in.Field || !methodOf(fn, named) {
		return
	}
	if ex.guardOf == nil {
		ex.guardOf = map[*Val]*Val{}
		ex.guardObj = map[*gomap]*Val{}
		ex.lockSeen = map[string]bool{}
		ex.guardType = map[*Val]types.Type{}
	}
	mp := &(*base).(structure)[mi]
	ex.guardOf[res] = mp
	ex.guardType[mp] = named
}

// inScope: only accesses made by the guarded type's own methods are judged (the harness adapters
// inspect the fields directly, single-threaded, for their invariant checks).
func (ex *Exec) inScope(fn *ssa.Function, m *Val) bool {
	t, ok := ex.guardType[m]
	return ok && methodOf(fn, t)
}

func (ex *Exec) lockViolation(kind string, fn *ssa.Function) {
	label := "C19/lock-discipline/" + kind
	key := label + "@" + funcDisplayName(fn)
	if ex.lockSeen[key] {
		return
	}
	ex.lockSeen[key] = true
	ex.violation(label, kind+" in "+funcDisplayName(fn)+" @"+ex.trace, ex.witness)
}

// checkGuardedLoad: p is about to be read.
func (ex *Exec) checkGuardedLoad(fn *ssa.Function, p Val, loaded Val) {
	a, ok := p.(*Val)
	if !ok {
		return
	}
	m, ok := ex.guardOf[a]
	if !ok {
		return
	}
	if ex.locks[m] == 0 && ex.inScope(fn, m) {
		ex.lockViolation("read-without-lock", fn)
	}
	if gm, ok := loaded.(*gomap); ok && gm != nil {
		ex.guardObj[gm] = m
	}
}

func (ex *Exec) checkGuardedStore(fn *ssa.Function, p Val) {
	a, ok := p.(*Val)
	if !ok {
		return
	}
	if m, ok := ex.guardOf[a]; ok && ex.locks[m] != -1 && ex.inScope(fn, m) {
		ex.lockViolation("write-without-exclusive-lock", fn)
	}
}

func (ex *Exec) checkGuardedMap(fn *ssa.Function, gm *gomap, write bool) {
	if gm == nil {
		return
	}
	m, ok := ex.guardObj[gm]
	if !ok {
		return
	}
	if !ex.inScope(fn, m) {
		return
	}
	if write && ex.locks[m] != -1 {
		ex.lockViolation("map-write-without-exclusive-lock", fn)
	} else if !write && ex.locks[m] == 0 {
		ex.lockViolation("map-read-without-lock", fn)
	}
}
