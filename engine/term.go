package main

// Terms: hash-consed SMT terms over Bool and fixed-width bit-vectors, with
// light simplification, a concrete evaluator (used with the current witness
// model) and SMT-LIB2 rendering. One TermBuilder lives per explored path.

import (
	"fmt"
	"strconv"
	"strings"
)

type Op uint8

const (
	OpVar Op = iota
	OpConst
	OpNot
	OpAnd
	OpOr
	OpEq
	OpIte
	OpAdd
	OpSub
	OpMul
	OpUDiv
	OpSDiv
	OpURem
	OpSRem
	OpBAnd
	OpBOr
	OpBXor
	OpShl
	OpLShr
	OpAShr
	OpNeg
	OpBNot
	OpTrunc // extract w-1..0
	OpZExt
	OpSExt
	OpUlt
	OpUle
	OpSlt
	OpSle
	OpUF // uninterpreted predicate/function application: name in Name, args
)

var opSMT = map[Op]string{
	OpNot: "not", OpAnd: "and", OpOr: "or", OpEq: "=", OpIte: "ite",
	OpAdd: "bvadd", OpSub: "bvsub", OpMul: "bvmul", OpUDiv: "bvudiv", OpSDiv: "bvsdiv",
	OpURem: "bvurem", OpSRem: "bvsrem", OpBAnd: "bvand", OpBOr: "bvor", OpBXor: "bvxor",
	OpShl: "bvshl", OpLShr: "bvlshr", OpAShr: "bvashr", OpNeg: "bvneg", OpBNot: "bvnot",
	OpUlt: "bvult", OpUle: "bvule", OpSlt: "bvslt", OpSle: "bvsle",
}

// Term. W==0 means Bool.
type Term struct {
	Op   Op
	W    int
	A    []*Term
	C    uint64 // constant value (Bool: 0/1)
	Name string // OpVar / OpUF
	ID   int
	s    string // SMT rendering (possibly a defined name)
	size int    // rendered size before naming
	// eval memo
	epoch int
	val   uint64
}

type termKey struct {
	op      Op
	w       int
	a, b, c int
	k       uint64
	name    string
}

type TermBuilder struct {
	tab    map[termKey]*Term
	nextID int
	Vars   []*Term // in creation order
	// pending solver text (declarations, definitions) not yet flushed
	pending strings.Builder
	ndefs   int
	ufs     map[string]string // uf name -> declared signature
	epoch   int
	True    *Term
	False   *Term
}

func NewTermBuilder() *TermBuilder {
	tb := &TermBuilder{tab: map[termKey]*Term{}, ufs: map[string]string{}, epoch: 1}
	tb.True = tb.mk(&Term{Op: OpConst, W: 0, C: 1, s: "true"})
	tb.False = tb.mk(&Term{Op: OpConst, W: 0, C: 0, s: "false"})
	return tb
}

func (tb *TermBuilder) mk(t *Term) *Term {
	k := termKey{op: t.Op, w: t.W, k: t.C, name: t.Name, a: -1, b: -1, c: -1}
	if len(t.A) > 0 {
		k.a = t.A[0].ID
	}
	if len(t.A) > 1 {
		k.b = t.A[1].ID
	}
	if len(t.A) > 2 {
		k.c = t.A[2].ID
	}
	if len(t.A) > 3 {
		// n-ary UF: fold ids into the name
		var sb strings.Builder
		sb.WriteString(t.Name)
		for _, a := range t.A {
			sb.WriteByte('#')
			sb.WriteString(strconv.Itoa(a.ID))
		}
		k.name = sb.String()
	}
	if o, ok := tb.tab[k]; ok {
		return o
	}
	t.ID = tb.nextID
	tb.nextID++
	if t.s == "" {
		tb.render(t)
	}
	tb.tab[k] = t
	return t
}

func sortOf(w int) string {
	if w == 0 {
		return "Bool"
	}
	return "(_ BitVec " + strconv.Itoa(w) + ")"
}

func (tb *TermBuilder) render(t *Term) {
	var sb strings.Builder
	switch t.Op {
	case OpConst:
		if t.W == 0 {
			if t.C != 0 {
				t.s = "true"
			} else {
				t.s = "false"
			}
		} else {
			t.s = "(_ bv" + strconv.FormatUint(t.C, 10) + " " + strconv.Itoa(t.W) + ")"
		}
		return
	case OpVar:
		t.s = t.Name
		return
	case OpTrunc:
		fmt.Fprintf(&sb, "((_ extract %d 0) %s)", t.W-1, t.A[0].s)
	case OpZExt:
		fmt.Fprintf(&sb, "((_ zero_extend %d) %s)", t.W-t.A[0].W, t.A[0].s)
	case OpSExt:
		fmt.Fprintf(&sb, "((_ sign_extend %d) %s)", t.W-t.A[0].W, t.A[0].s)
	case OpUF:
		if len(t.A) == 0 {
			sb.WriteString(t.Name)
		} else {
			sb.WriteByte('(')
			sb.WriteString(t.Name)
			for _, a := range t.A {
				sb.WriteByte(' ')
				sb.WriteString(a.s)
			}
			sb.WriteByte(')')
		}
	default:
		sb.WriteByte('(')
		sb.WriteString(opSMT[t.Op])
		for _, a := range t.A {
			sb.WriteByte(' ')
			sb.WriteString(a.s)
		}
		sb.WriteByte(')')
	}
	t.s = sb.String()
	if len(t.s) > 140 {
		tb.ndefs++
		name := "d!" + strconv.Itoa(tb.ndefs)
		fmt.Fprintf(&tb.pending, "(define-fun %s () %s %s)\n", name, sortOf(t.W), t.s)
		t.s = name
	}
}

// ---- constructors

func (tb *TermBuilder) Var(name string, w int) *Term {
	n := tb.nextID
	t := tb.mk(&Term{Op: OpVar, W: w, Name: name})
	if t.ID == n {
		// newly created
		tb.Vars = append(tb.Vars, t)
		fmt.Fprintf(&tb.pending, "(declare-const %s %s)\n", name, sortOf(w))
	}
	return t
}

func (tb *TermBuilder) Const(v uint64, w int) *Term {
	if w == 0 {
		if v != 0 {
			return tb.True
		}
		return tb.False
	}
	return tb.mk(&Term{Op: OpConst, W: w, C: v & maskw(w)})
}

func (tb *TermBuilder) Bool(b bool) *Term {
	if b {
		return tb.True
	}
	return tb.False
}

func maskw(w int) uint64 {
	if w >= 64 {
		return ^uint64(0)
	}
	return (uint64(1) << uint(w)) - 1
}

func sextw(c uint64, w int) int64 {
	s := uint(64 - w)
	return int64(c<<s) >> s
}

func (t *Term) IsConst() bool { return t.Op == OpConst }

func (tb *TermBuilder) Not(a *Term) *Term {
	if a.IsConst() {
		return tb.Bool(a.C == 0)
	}
	if a.Op == OpNot {
		return a.A[0]
	}
	return tb.mk(&Term{Op: OpNot, A: []*Term{a}})
}

func (tb *TermBuilder) And(a, b *Term) *Term {
	if a.IsConst() {
		if a.C == 0 {
			return tb.False
		}
		return b
	}
	if b.IsConst() {
		if b.C == 0 {
			return tb.False
		}
		return a
	}
	if a == b {
		return a
	}
	return tb.mk(&Term{Op: OpAnd, A: []*Term{a, b}})
}

func (tb *TermBuilder) Or(a, b *Term) *Term {
	if a.IsConst() {
		if a.C != 0 {
			return tb.True
		}
		return b
	}
	if b.IsConst() {
		if b.C != 0 {
			return tb.True
		}
		return a
	}
	if a == b {
		return a
	}
	return tb.mk(&Term{Op: OpOr, A: []*Term{a, b}})
}

func (tb *TermBuilder) Eq(a, b *Term) *Term {
	if a == b {
		return tb.True
	}
	if a.IsConst() && b.IsConst() {
		return tb.Bool(a.C == b.C)
	}
	if a.W != b.W {
		panic(fmt.Sprintf("Eq width mismatch %d %d: %s %s", a.W, b.W, a.s, b.s))
	}
	if a.W == 0 {
		if a.IsConst() {
			a, b = b, a
		}
		if b.IsConst() {
			if b.C != 0 {
				return a
			}
			return tb.Not(a)
		}
	} else {
		// (= (ite c k1 k2) k) with constants
		if a.IsConst() {
			a, b = b, a
		}
		if b.IsConst() && a.Op == OpIte && a.A[1].IsConst() && a.A[2].IsConst() {
			x, y := a.A[1].C == b.C, a.A[2].C == b.C
			switch {
			case x && y:
				return tb.True
			case x:
				return a.A[0]
			case y:
				return tb.Not(a.A[0])
			default:
				return tb.False
			}
		}
		// (= (zext x) k): compare in the narrow width
		if b.IsConst() && a.Op == OpZExt {
			if b.C > maskw(a.A[0].W) {
				return tb.False
			}
			return tb.Eq(a.A[0], tb.Const(b.C, a.A[0].W))
		}
	}
	if a.ID > b.ID {
		a, b = b, a
	}
	return tb.mk(&Term{Op: OpEq, A: []*Term{a, b}})
}

func (tb *TermBuilder) Ite(c, a, b *Term) *Term {
	if c.IsConst() {
		if c.C != 0 {
			return a
		}
		return b
	}
	if a == b {
		return a
	}
	if a.W != b.W {
		panic("Ite width mismatch")
	}
	if a.W == 0 {
		if a.IsConst() && b.IsConst() {
			if a.C != 0 {
				return c
			}
			return tb.Not(c)
		}
		if a.IsConst() {
			if a.C != 0 {
				return tb.Or(c, b)
			}
			return tb.And(tb.Not(c), b)
		}
		if b.IsConst() {
			if b.C != 0 {
				return tb.Or(tb.Not(c), a)
			}
			return tb.And(c, a)
		}
	}
	return tb.mk(&Term{Op: OpIte, W: a.W, A: []*Term{c, a, b}})
}

func evalBin(op Op, w int, a, b uint64) uint64 {
	m := maskw(w)
	switch op {
	case OpAdd:
		return (a + b) & m
	case OpSub:
		return (a - b) & m
	case OpMul:
		return (a * b) & m
	case OpUDiv:
		if b == 0 {
			return m
		}
		return (a / b) & m
	case OpURem:
		if b == 0 {
			return a
		}
		return (a % b) & m
	case OpSDiv:
		if b == 0 {
			if sextw(a, w) < 0 {
				return 1
			}
			return m
		}
		x, y := sextw(a, w), sextw(b, w)
		if y == -1 {
			return uint64(-x) & m
		}
		return uint64(x/y) & m
	case OpSRem:
		if b == 0 {
			return a
		}
		x, y := sextw(a, w), sextw(b, w)
		if y == -1 {
			return 0
		}
		return uint64(x%y) & m
	case OpBAnd:
		return a & b
	case OpBOr:
		return a | b
	case OpBXor:
		return (a ^ b) & m
	case OpShl:
		if b >= uint64(w) {
			return 0
		}
		return (a << b) & m
	case OpLShr:
		if b >= uint64(w) {
			return 0
		}
		return (a >> b) & m
	case OpAShr:
		x := sextw(a, w)
		if b >= uint64(w) {
			b = uint64(w - 1)
		}
		return uint64(x>>b) & m
	case OpUlt:
		return b2u(a < b)
	case OpUle:
		return b2u(a <= b)
	case OpSlt:
		return b2u(sextw(a, w) < sextw(b, w))
	case OpSle:
		return b2u(sextw(a, w) <= sextw(b, w))
	}
	panic("evalBin")
}

func b2u(b bool) uint64 {
	if b {
		return 1
	}
	return 0
}

// Bin builds a binary bit-vector operation (arith or comparison).
func (tb *TermBuilder) Bin(op Op, a, b *Term) *Term {
	if a.W != b.W {
		panic(fmt.Sprintf("Bin width mismatch op=%d %d %d", op, a.W, b.W))
	}
	rw := a.W
	cmp := op == OpUlt || op == OpUle || op == OpSlt || op == OpSle
	if cmp {
		rw = 0
	}
	if a.IsConst() && b.IsConst() {
		return tb.Const(evalBin(op, a.W, a.C, b.C), rw)
	}
	switch op {
	case OpAdd:
		if a.IsConst() && a.C == 0 {
			return b
		}
		if b.IsConst() && b.C == 0 {
			return a
		}
		// (x + k1) + k2
		if b.IsConst() && a.Op == OpAdd && a.A[1].IsConst() {
			return tb.Bin(OpAdd, a.A[0], tb.Const(a.A[1].C+b.C, a.W))
		}
	case OpSub:
		if b.IsConst() && b.C == 0 {
			return a
		}
		if a == b {
			return tb.Const(0, a.W)
		}
		if b.IsConst() {
			return tb.Bin(OpAdd, a, tb.Const(-b.C, a.W))
		}
	case OpMul:
		if a.IsConst() {
			a, b = b, a
		}
		if b.IsConst() {
			if b.C == 0 {
				return b
			}
			if b.C == 1 {
				return a
			}
		}
	case OpBAnd:
		if a == b {
			return a
		}
		if b.IsConst() && b.C == 0 || a.IsConst() && a.C == 0 {
			return tb.Const(0, a.W)
		}
	case OpBOr, OpBXor:
		if b.IsConst() && b.C == 0 {
			return a
		}
		if a.IsConst() && a.C == 0 {
			return b
		}
	case OpUlt:
		if a == b {
			return tb.False
		}
		if b.IsConst() && b.C == 0 {
			return tb.False
		}
		// zext(x) <u k
		if b.IsConst() && a.Op == OpZExt {
			if b.C > maskw(a.A[0].W) {
				return tb.True
			}
			return tb.Bin(OpUlt, a.A[0], tb.Const(b.C, a.A[0].W))
		}
		if a.IsConst() && b.Op == OpZExt {
			if a.C >= maskw(b.A[0].W) {
				return tb.False
			}
			return tb.Bin(OpUlt, tb.Const(a.C, b.A[0].W), b.A[0])
		}
	case OpUle:
		if a == b {
			return tb.True
		}
		if a.IsConst() && a.C == 0 {
			return tb.True
		}
		if b.IsConst() && a.Op == OpZExt {
			if b.C >= maskw(a.A[0].W) {
				return tb.True
			}
			return tb.Bin(OpUle, a.A[0], tb.Const(b.C, a.A[0].W))
		}
		if a.IsConst() && b.Op == OpZExt {
			if a.C > maskw(b.A[0].W) {
				return tb.False
			}
			return tb.Bin(OpUle, tb.Const(a.C, b.A[0].W), b.A[0])
		}
	case OpSlt, OpSle:
		if a == b {
			return tb.Bool(op == OpSle)
		}
		// zext operands are non-negative: signed compare == unsigned compare
		// when the constant is non-negative too.
		if a.Op == OpZExt && b.IsConst() && sextw(b.C, b.W) >= 0 {
			if op == OpSlt {
				return tb.Bin(OpUlt, a, b)
			}
			return tb.Bin(OpUle, a, b)
		}
		if b.Op == OpZExt && a.IsConst() && sextw(a.C, a.W) >= 0 {
			if op == OpSlt {
				return tb.Bin(OpUlt, a, b)
			}
			return tb.Bin(OpUle, a, b)
		}
		if a.Op == OpZExt && b.IsConst() && sextw(b.C, b.W) < 0 {
			return tb.False
		}
		if b.Op == OpZExt && a.IsConst() && sextw(a.C, a.W) < 0 {
			return tb.True
		}
	}
	return tb.mk(&Term{Op: op, W: rw, A: []*Term{a, b}})
}

func (tb *TermBuilder) Un(op Op, a *Term) *Term {
	if a.IsConst() {
		switch op {
		case OpNeg:
			return tb.Const(-a.C, a.W)
		case OpBNot:
			return tb.Const(^a.C, a.W)
		}
	}
	return tb.mk(&Term{Op: op, W: a.W, A: []*Term{a}})
}

// Resize converts a bit-vector to width w (truncate / zero- or sign-extend).
func (tb *TermBuilder) Resize(a *Term, w int, signed bool) *Term {
	if a.W == w {
		return a
	}
	if a.IsConst() {
		if w < a.W {
			return tb.Const(a.C, w)
		}
		if signed {
			return tb.Const(uint64(sextw(a.C, a.W)), w)
		}
		return tb.Const(a.C, w)
	}
	if w < a.W {
		// trunc(zext(x)) with w >= width(x)
		if (a.Op == OpZExt || a.Op == OpSExt) && a.A[0].W <= w {
			return tb.Resize(a.A[0], w, a.Op == OpSExt)
		}
		return tb.mk(&Term{Op: OpTrunc, W: w, A: []*Term{a}})
	}
	if signed {
		if a.Op == OpZExt {
			return tb.mk(&Term{Op: OpZExt, W: w, A: []*Term{a.A[0]}})
		}
		return tb.mk(&Term{Op: OpSExt, W: w, A: []*Term{a}})
	}
	if a.Op == OpZExt {
		return tb.mk(&Term{Op: OpZExt, W: w, A: []*Term{a.A[0]}})
	}
	return tb.mk(&Term{Op: OpZExt, W: w, A: []*Term{a}})
}

// UF applies an uninterpreted function (declared on first use) to args.
func (tb *TermBuilder) UF(name string, w int, args ...*Term) *Term {
	var sig strings.Builder
	sig.WriteString("(")
	for i, a := range args {
		if i > 0 {
			sig.WriteByte(' ')
		}
		sig.WriteString(sortOf(a.W))
	}
	sig.WriteString(") " + sortOf(w))
	if old, ok := tb.ufs[name]; !ok {
		tb.ufs[name] = sig.String()
		fmt.Fprintf(&tb.pending, "(declare-fun %s %s)\n", name, sig.String())
	} else if old != sig.String() {
		panic("UF redeclared with different signature: " + name)
	}
	return tb.mk(&Term{Op: OpUF, W: w, Name: name, A: args})
}

// ---- evaluation under a witness

type Witness map[string]uint64

// Eval evaluates t under the assignment w; variables not present evaluate
// to 0. UF applications cannot be evaluated: ok=false.
func (tb *TermBuilder) Eval(t *Term, w Witness) (v uint64, ok bool) {
	defer func() {
		if r := recover(); r != nil {
			if r == errUFEval {
				v, ok = 0, false
				return
			}
			panic(r)
		}
	}()
	return tb.eval(t, w), true
}

var errUFEval = fmt.Errorf("uf in eval")

func (tb *TermBuilder) eval(t *Term, w Witness) uint64 {
	switch t.Op {
	case OpConst:
		return t.C
	case OpVar:
		return w[t.Name] & maskw1(t.W)
	}
	if t.epoch == tb.epoch {
		return t.val
	}
	var v uint64
	switch t.Op {
	case OpNot:
		v = 1 - tb.eval(t.A[0], w)
	case OpAnd:
		if tb.eval(t.A[0], w) == 0 {
			v = 0
		} else {
			v = tb.eval(t.A[1], w)
		}
	case OpOr:
		if tb.eval(t.A[0], w) != 0 {
			v = 1
		} else {
			v = tb.eval(t.A[1], w)
		}
	case OpEq:
		v = b2u(tb.eval(t.A[0], w) == tb.eval(t.A[1], w))
	case OpIte:
		if tb.eval(t.A[0], w) != 0 {
			v = tb.eval(t.A[1], w)
		} else {
			v = tb.eval(t.A[2], w)
		}
	case OpNeg:
		v = (-tb.eval(t.A[0], w)) & maskw(t.W)
	case OpBNot:
		v = (^tb.eval(t.A[0], w)) & maskw(t.W)
	case OpTrunc:
		v = tb.eval(t.A[0], w) & maskw(t.W)
	case OpZExt:
		v = tb.eval(t.A[0], w)
	case OpSExt:
		v = uint64(sextw(tb.eval(t.A[0], w), t.A[0].W)) & maskw(t.W)
	case OpUF:
		panic(errUFEval)
	default:
		v = evalBin(t.Op, t.A[0].W, tb.eval(t.A[0], w), tb.eval(t.A[1], w))
	}
	t.epoch = tb.epoch
	t.val = v
	return v
}

func maskw1(w int) uint64 {
	if w == 0 {
		return 1
	}
	return maskw(w)
}

// BumpEpoch invalidates the evaluation memo (call when the witness changes).
func (tb *TermBuilder) BumpEpoch() { tb.epoch++ }
