package main

// The check driver: `check <ID> --tier quick|thorough`.

import (
	"encoding/json"
	"fmt"
	"os"
	"path/filepath"
	"regexp"
	"sort"
	"strconv"
	"strings"
	"time"
)

type HSpec struct {
	Fn         string         `json:"fn"` // "<rel pkg>.<Func>"
	Quick      map[string]int `json:"quick"`
	Thorough   map[string]int `json:"thorough"`
	SkipQuick  bool           `json:"skip_quick"`
	MapOrder   string         `json:"map_order"`
	PanicIsOK  bool           `json:"panic_is_ok"`
	PoolDrain  bool           `json:"pool_drain"`
	Fuel       int64          `json:"fuel"`
	Reach      []string       `json:"reach"` // vacuity witnesses that must be reached
	MergeOff   bool           `json:"merge_off"`
	Automaton  int            `json:"automaton"` // >0: state-merged exploration, value = cap on abstract states
	LockDisc   bool           `json:"lock_discipline"`
	Corpus     bool           `json:"corpus"`      // translator validation on the repository's test corpus
	CorpusLoop string         `json:"corpus_loop"` // "Schema" / "Enum" / "Doc": run once per corpus text of that kind
}

type CSpec struct {
	ID          string   `json:"id"`
	Harnesses   []HSpec  `json:"harnesses"`
	Assumptions []string `json:"assumptions"`
	Bounds      string   `json:"bounds"`
	Special     string   `json:"special"` // name of a built-in procedure run in addition (automata, static passes)
}

type KnownFinding struct {
	ID       string            `json:"id"`
	Property string            `json:"property"`
	Label    string            `json:"label"`
	Harness  string            `json:"harness,omitempty"`
	Match    map[string]string `json:"match"` // observed key -> regexp
	What     string            `json:"what"`
	Status   string            `json:"status"` // "open" | "fixed"
	Commit   string            `json:"commit,omitempty"`
}

func loadSpecs() map[string]*CSpec {
	data, err := os.ReadFile(filepath.Join(verifDir, "checks.json"))
	if err != nil {
		fmt.Println("checks.json:", err)
		os.Exit(2)
	}
	var list []*CSpec
	if err := json.Unmarshal(data, &list); err != nil {
		fmt.Println("checks.json:", err)
		os.Exit(2)
	}
	m := map[string]*CSpec{}
	for _, c := range list {
		m[c.ID] = c
	}
	return m
}

func loadKnown() []KnownFinding {
	data, err := os.ReadFile(filepath.Join(verifDir, "known_findings.json"))
	if err != nil {
		return nil
	}
	var k struct {
		Findings []KnownFinding `json:"findings"`
	}
	json.Unmarshal(data, &k)
	return k.Findings
}

func (k *KnownFinding) matches(prop string, v *Violation) bool {
	if k.Status == "fixed" || k.Property != prop || k.Label != v.Label {
		return false
	}
	if k.Harness != "" && !strings.HasSuffix(v.Harness, k.Harness) {
		return false
	}
	for key, re := range k.Match {
		val, ok := v.Observe[key]
		if !ok {
			return false
		}
		m, err := regexp.MatchString(re, val)
		if err != nil || !m {
			return false
		}
	}
	return true
}

type harnessEvidence struct {
	Harness    string         `json:"harness"`
	Params     map[string]int `json:"params"`
	Paths      int            `json:"paths"`
	Outcomes   map[string]int `json:"outcomes"`
	Asserts    int            `json:"assertions_discharged"`
	Queries    int            `json:"solver_queries"`
	SolverS    float64        `json:"solver_s"`
	Instrs     int64          `json:"ssa_instructions_executed"`
	WallS      float64        `json:"wall_s"`
	Reached    map[string]int `json:"vacuity_witnesses"`
	Inconcl    map[string]int `json:"inconclusive,omitempty"`
	Truncated  bool           `json:"truncated,omitempty"`
	Violations int            `json:"violations"`
}

func viaKey(v *Violation) string {
	var ks []string
	for k, s := range v.Observe {
		ks = append(ks, k+"="+s)
	}
	sort.Strings(ks)
	return v.Harness + "|" + v.Label + "|" + strings.Join(ks, ";")
}

var solverDiff string
var specialViol int
var specialRep interface{}
var corpusRep interface{}

func runCheck(args []string) int {
	id := args[0]
	tier := envOr("VERIF_TIER", "quick")
	for i := 1; i < len(args); i++ {
		if args[i] == "--tier" && i+1 < len(args) {
			tier = args[i+1]
		}
	}
	seed, _ := strconv.Atoi(envOr("VERIF_SEED", "0"))
	specs := loadSpecs()
	spec, ok := specs[id]
	if !ok {
		fmt.Println("unknown check", id)
		return 2
	}
	t0 := time.Now()
	env, err := LoadEnv()
	if err != nil {
		// A tree that does not build is not a property violation; report and fail closed without VIOLATION.
		fmt.Println("INCONCLUSIVE load failed:", err)
		writeEvidence(id, tier, seed, nil, nil, nil, []string{"load failed: " + err.Error()}, spec, time.Since(t0), 0, 0, nil, env)
		return 0
	}
	nb := newNativeBuilder()
	defer nb.Close()
	known := loadKnown()

	var hev []harnessEvidence
	var allViol []Violation
	var inconcl []string
	var samples []interface{}
	fnHits := map[string]int{}
	validated := 0
	type passCase struct {
		c   ReplayCase
		obs map[string]string
		why string
	}
	var passCases []passCase
	var diffSamples []DiffSample

	for _, h := range spec.Harnesses {
		params := h.Quick
		if tier == "thorough" {
			params = map[string]int{}
			for k, v := range h.Quick {
				params[k] = v
			}
			for k, v := range h.Thorough {
				params[k] = v
			}
		} else if h.SkipQuick {
			continue
		}
		if params == nil {
			params = map[string]int{}
		}
		params["seed"] = seed
		if h.Corpus {
			tc := time.Now()
			cres, cviol := runCorpus(env, nb, modPath+"/"+h.Fn, 0)
			corpusRep = cres
			for _, m := range cres.Mismatches {
				inconcl = append(inconcl, "translator validation: engine and native library disagree on "+m)
			}
			for _, m := range cres.EngineFail {
				inconcl = append(inconcl, "translator validation: "+m)
			}
			allViol = append(allViol, cviol...)
			hev = append(hev, harnessEvidence{Harness: h.Fn + " (corpus)", Params: map[string]int{"cases": cres.Cases}, Paths: cres.Cases,
				Outcomes: map[string]int{"ok": cres.Expectation}, Instrs: cres.Instrs, WallS: time.Since(tc).Seconds(),
				Reached: map[string]int{"selfcheck/engine-native-agree": cres.Agree}, Violations: len(cviol)})
			fmt.Fprintf(os.Stderr, "translator validation: %d corpus cases, %d agree with the native library, %d with the expected code, %d mismatches\n",
				cres.Cases, cres.Agree, cres.Expectation, len(cres.Mismatches)+len(cres.EngineFail))
			continue
		}
		r := &Run{Env: env, Harness: modPath + "/" + h.Fn, Params: params, MapOrder: h.MapOrder, PanicIsOK: h.PanicIsOK,
			IsKnown: func(v *Violation) bool {
				for ki := range known {
					if known[ki].matches(id, v) {
						return true
					}
				}
				return false
			},
			PoolDrain: h.PoolDrain, LockDisc: h.LockDisc, Fuel: h.Fuel, MergeOff: h.MergeOff, Quiet: false, DiffEvery: 97}
		if strings.HasPrefix(h.Fn, ".") {
			r.Harness = modPath + h.Fn
		}
		if w, err := strconv.Atoi(os.Getenv("VERIF_WORKERS")); err == nil && w > 0 {
			r.Workers = w
		}
		if h.Automaton > 0 {
			r = exploreAutomaton(r, h.Automaton)
		} else if h.CorpusLoop != "" {
			r = exploreCorpusLoop(r, h.CorpusLoop)
		} else {
			r.Explore()
		}
		fmt.Fprintln(os.Stderr, r.Summary())
		he := harnessEvidence{Harness: h.Fn, Params: params, Paths: r.Paths, Outcomes: r.Outcomes, Asserts: r.Asserts,
			Queries: r.Queries, SolverS: r.SolverDur.Seconds(), Instrs: r.Instrs, WallS: r.Wall.Seconds(), Reached: r.Reached,
			Inconcl: r.Inconcl, Truncated: r.Truncated, Violations: len(r.Violations)}
		hev = append(hev, he)
		for k, n := range r.Inconcl {
			inconcl = append(inconcl, fmt.Sprintf("%s: %s (%d paths)", h.Fn, k, n))
		}
		if r.Truncated {
			inconcl = append(inconcl, h.Fn+": exploration truncated by path/time limit")
		}
		for _, w := range h.Reach {
			if r.Reached[w] == 0 {
				inconcl = append(inconcl, h.Fn+": vacuity witness not reached: "+w)
			}
		}
		for k, n := range r.FnHits {
			fnHits[k] += n
		}
		allViol = append(allViol, r.Violations...)
		if len(diffSamples) < 24 {
			for _, ds := range r.DiffSamples {
				if len(diffSamples) < 24 {
					diffSamples = append(diffSamples, ds)
				}
			}
		}
		for i, s := range r.Samples {
			if len(samples) < 12 {
				samples = append(samples, map[string]interface{}{"harness": h.Fn, "inputs": renderInputs(s), "observed": r.SampleObs[i]})
			}
		}
		for i, m := range r.PassModels {
			if i >= 24 {
				break
			}
			pc := passCase{ReplayCase{Harness: r.Harness, Label: "", Inputs: m, Params: params}, r.PassObs[i], "the inputs of a path the engine passed"}
			if i < len(r.PassPBytes) {
				pc.c.PBytes = r.PassPBytes[i]
			}
			passCases = append(passCases, pc)
		}
		// witnesses of paths the engine could not finish (unsupported construct, fuel): run them natively
		for i, m := range r.Probes {
			if i >= 40 {
				break
			}
			pc := passCase{ReplayCase{Harness: r.Harness, Label: "", Inputs: m, Params: params}, nil, "the witness of a path the engine could not finish"}
			if i < len(r.ProbePBytes) {
				pc.c.PBytes = r.ProbePBytes[i]
			}
			if i < len(r.ProbeParams) {
				pc.c.Params = r.ProbeParams[i]
			}
			passCases = append(passCases, pc)
		}
	}

	// ---- cross-replay of passing paths
	pcByPkg := map[string][]passCase{}
	for _, pc := range passCases {
		p := pkgOfHarness(pc.c.Harness)
		pcByPkg[p] = append(pcByPkg[p], pc)
	}
	for _, pcs := range pcByPkg {
		var cases []ReplayCase
		for _, pc := range pcs {
			cases = append(cases, pc.c)
		}
		res, err := nb.Replay(cases)
		if err != nil {
			inconcl = append(inconcl, "native cross-replay failed: "+err.Error())
			continue
		}
		for i, rr := range res {
			bad := ""
			switch {
			case len(rr.Failed) > 0 || rr.Panic != "":
				// the natively compiled library fails the assertion on these concrete inputs: a genuine
				// counterexample whatever the engine made of the path (it is replayed again below)
				label := "uncaught-panic"
				if len(rr.Failed) > 0 {
					label = rr.Failed[0]
				}
				allViol = append(allViol, Violation{Label: label, Harness: cases[i].Harness, Inputs: cases[i].Inputs, Params: cases[i].Params,
					PBytes: cases[i].PBytes, Observe: rr.Observed, Detail: "found by native execution of " + pcs[i].why})
				continue
			case pcs[i].obs == nil:
				// an unfinished path: only a native failure is informative
			case rr.Assumes > 0:
				bad = "assumption violated natively"
			case rr.Underrun:
				bad = "native run consumed more inputs than the engine created"
			default:
				for k, ev := range pcs[i].obs {
					if nv, ok := rr.Observed[k]; ok && nv != ev && ev != "<opaque>" {
						bad = fmt.Sprintf("observation %s differs: engine %s native %s", k, ev, nv)
					}
				}
			}
			if bad != "" {
				inconcl = append(inconcl, fmt.Sprintf("cross-replay mismatch (%s inputs=%s): %s", cases[i].Harness, renderInputs(cases[i].Inputs), bad))
			} else {
				validated++
			}
		}
	}

	// ---- native replay of violations
	byKey := map[string]*Violation{}
	var order []string
	perLabel := map[string]int{}
	for i := range allViol {
		v := &allViol[i]
		k := viaKey(v)
		if _, ok := byKey[k]; ok {
			continue
		}
		// The cap is per label AND per known finding the engine-side observations match, so that many
		// instances of a known finding cannot crowd out a different violation that carries the same label.
		bucket, limit := v.Harness+"|"+v.Label+"|new", 40
		for ki := range known {
			if known[ki].matches(id, v) {
				bucket, limit = v.Harness+"|"+v.Label+"|"+known[ki].ID, 6
				break
			}
		}
		if perLabel[bucket] >= limit {
			continue
		}
		perLabel[bucket]++
		byKey[k] = v
		order = append(order, k)
	}
	byPkg := map[string][]string{}
	for _, k := range order {
		p := pkgOfHarness(byKey[k].Harness)
		if isRaceLabel(byKey[k].Label) {
			p += "|race" // replayed by a binary built with the race detector, one process per case
		}
		byPkg[p] = append(byPkg[p], k)
	}
	confirmed := map[string]bool{}
	for _, ks := range byPkg {
		var cases []ReplayCase
		for _, k := range ks {
			v := byKey[k]
			cases = append(cases, ReplayCase{Harness: v.Harness, Label: v.Label, Inputs: v.Inputs, Params: v.Params, PBytes: v.PBytes})
		}
		res, err := nb.Replay(cases)
		if err != nil {
			inconcl = append(inconcl, "native replay failed: "+err.Error())
			continue
		}
		for i, k := range ks {
			v := byKey[k]
			rr := res[i]
			ok := false
			for _, f := range rr.Failed {
				if f == v.Label {
					ok = true
				}
			}
			if v.Label == "uncaught-panic" && rr.Panic != "" {
				ok = true
			}
			if isRaceLabel(v.Label) && strings.Contains(rr.Panic, "DATA RACE") {
				ok = true
			}
			if ok {
				confirmed[k] = true
				validated++
				// prefer the native observations for fingerprinting
				if len(rr.Observed) > 0 {
					v.Observe = rr.Observed
				}
				if rr.Panic != "" {
					v.Detail = rr.Panic
				}
			} else {
				inconcl = append(inconcl, fmt.Sprintf("counterexample not reproduced natively: %s %s inputs=%s native=%+v", v.Harness, v.Label, renderInputs(v.Inputs), rr))
			}
		}
	}

	// ---- special static passes
	var special interface{}
	if spec.Special == "error-arity" {
		rep, err := staticErrorArity(env)
		if err != nil {
			inconcl = append(inconcl, "error-arity pass: "+err.Error())
		} else {
			special = rep
			fmt.Fprintf(os.Stderr, "error-arity: %d Format sites, %d bare-code sites, %d dynamic, %d codes, %d templates, %d problems\n", rep.Sites, rep.BareSites, rep.Dynamic, rep.Codes, rep.Templates, len(rep.Problems))
			for i, pr := range rep.Problems {
				dir := filepath.Join(verifDir, "evidence", "replays", fmt.Sprintf("%s-arity-%s", id, shortHash(pr)))
				os.MkdirAll(dir, 0o755)
				os.WriteFile(filepath.Join(dir, "README.txt"), []byte("property: "+id+" (message templates and argument lists agree)\n"+pr+"\n\nreproduce: cd /verif && bin/check "+id+"\n"), 0o644)
				if i < 10 {
					fmt.Printf("VIOLATION property=%s replay=%s\n  %s\n", id, dir, pr)
				}
				specialViol++
			}
		}
	}

	// ---- solver diff: sampled queries re-decided by z3 4.8.12 and cvc5
	diffChecked, diffBad := RunDiff(diffSamples)
	for _, d := range diffBad {
		inconcl = append(inconcl, "solver disagreement: "+d)
	}
	solverDiff = fmt.Sprintf("%d sampled queries re-decided by z3 4.8.12 and cvc5 (%d solver runs), %d disagreements", len(diffSamples), diffChecked, len(diffBad))

	// ---- classify
	exit := 0
	if specialViol > 0 {
		exit = 1
	}
	knownSeen := map[string]bool{}
	nviol := 0
	replayRoot := filepath.Join(verifDir, "evidence", "replays")
	for _, k := range order {
		if !confirmed[k] {
			continue
		}
		v := byKey[k]
		matched := false
		for i := range known {
			if known[i].matches(id, v) {
				matched = true
				if !knownSeen[known[i].ID] {
					knownSeen[known[i].ID] = true
					fmt.Printf("KNOWN-FINDING: property=%s %s [%s] e.g. %s\n", id, known[i].What, known[i].ID, obsString(v))
				}
				break
			}
		}
		if matched {
			continue
		}
		nviol++
		if nviol > 10 {
			continue
		}
		dir := filepath.Join(replayRoot, fmt.Sprintf("%s-%s", id, shortHash(k)))
		os.MkdirAll(dir, 0o755)
		rc := []ReplayCase{{Harness: v.Harness, Label: v.Label, Inputs: v.Inputs, Params: v.Params, PBytes: v.PBytes}}
		js, _ := json.MarshalIndent(rc, "", " ")
		os.WriteFile(filepath.Join(dir, "replay.json"), js, 0o644)
		info := fmt.Sprintf("property: %s\nharness: %s\nassertion: %s\ninputs: %s\nobserved: %s\ndetail: %s\n\nreplay: cd /verif && bin/check replay %s\n",
			id, v.Harness, v.Label, renderInputs(v.Inputs), obsString(v), v.Detail, filepath.Join(dir, "replay.json"))
		os.WriteFile(filepath.Join(dir, "README.txt"), []byte(info), 0o644)
		fmt.Printf("VIOLATION property=%s replay=%s\n", id, dir)
		fmt.Printf("  %s %s inputs=%s %s\n", v.Harness[strings.LastIndex(v.Harness, "/")+1:], v.Label, renderInputs(v.Inputs), obsString(v))
		exit = 1
	}
	sort.Strings(inconcl)
	for i, s := range inconcl {
		if i < 20 {
			fmt.Println("INCONCLUSIVE", s)
		}
	}
	specialRep = special
	nviol += specialViol
	writeEvidence(id, tier, seed, hev, samples, fnHits, inconcl, spec, time.Since(t0), validated, nviol, knownSeen, env)
	fmt.Fprintf(os.Stderr, "check %s tier=%s: %d violation(s), %d known finding(s), %d inconclusive note(s), %.1fs\n", id, tier, nviol, len(knownSeen), len(inconcl), time.Since(t0).Seconds())
	return exit
}

func obsString(v *Violation) string {
	var ks []string
	for k, s := range v.Observe {
		ks = append(ks, k+"="+s)
	}
	sort.Strings(ks)
	return strings.Join(ks, " ")
}

func shortHash(s string) string {
	h := uint64(1469598103934665603)
	for i := 0; i < len(s); i++ {
		h ^= uint64(s[i])
		h *= 1099511628211
	}
	return fmt.Sprintf("%012x", h&0xffffffffffff)
}

func writeEvidence(id, tier string, seed int, hev []harnessEvidence, samples []interface{}, fnHits map[string]int, inconcl []string,
	spec *CSpec, wall time.Duration, validated, nviol int, knownSeen map[string]bool, env *Env) {
	states, trans, queries, asserts := 0, 0, 0, 0
	var solverS float64
	reach := map[string]int{}
	for _, h := range hev {
		states += h.Paths
		trans += h.Queries
		queries += h.Queries
		asserts += h.Asserts
		solverS += h.SolverS
		for k, n := range h.Reached {
			reach[k] += n
		}
	}
	if trans == 0 {
		trans = states
	}
	var fns []string
	for k := range fnHits {
		if strings.Contains(k, modPath) && !strings.Contains(k, "zzverif") && !strings.Contains(k, ".ZZ") && !strings.Contains(k, ".zz") {
			fns = append(fns, strings.ReplaceAll(k, modPath+"/", ""))
		}
	}
	sort.Strings(fns)
	if len(samples) == 0 {
		samples = []interface{}{"(no passing sample)"}
	}
	var kf []string
	for k := range knownSeen {
		kf = append(kf, k)
	}
	sort.Strings(kf)
	cov := map[string]interface{}{
		"states":                        max1(states),
		"transitions":                   max1(trans),
		"traces_validated_against_impl": validated,
		"samples":                       samples,
		"exhaustive":                    len(inconcl) == 0,
		"explanation":                   "states = symbolic paths of the real SSA explored to completion (each stands for every input value that follows it); transitions = SMT queries deciding branches and assertions; traces_validated = solver models replayed through the natively compiled harness",
		"harnesses":                     hev,
		"functions_encoded":             fns,
		"functions_encoded_count":       len(fns),
		"assertions_discharged":         asserts,
		"solver_queries":                queries,
		"solver_s":                      solverS,
		"vacuity_witnesses":             reach,
		"inconclusive":                  inconcl,
		"holds":                         nviol == 0 && len(inconcl) == 0,
		"known_findings_seen":           kf,
		"bounds":                        spec.Bounds,
		"solver":                        "z3 5.1.0 (z3-new) over a pipe, one process per worker, no set-logic",
		"solver_diff":                   solverDiff,
		"static_pass":                   specialRep,
		"translator_validation":         corpusRep,
	}
	ev := map[string]interface{}{
		"property_id": id,
		"tier":        tier,
		"seed":        seed,
		"level":       "model_checking",
		"coverage":    cov,
		"assumptions": spec.Assumptions,
		"wall_s":      wall.Seconds(),
		"violations":  nviol,
	}
	os.MkdirAll(filepath.Join(verifDir, "evidence"), 0o755)
	js, _ := json.MarshalIndent(ev, "", " ")
	os.WriteFile(filepath.Join(verifDir, "evidence", id+".json"), js, 0o644)
}

func max1(n int) int {
	if n < 1 {
		return 1
	}
	return n
}
