package main

func runCheck(args []string) int { return 2 }
