package main

// Loading /repo's current working tree (plus overlay harness files) into SSA.

import (
	"fmt"
	"go/types"
	"os"
	"path/filepath"
	"strings"
	"time"

	"golang.org/x/tools/go/packages"
	"golang.org/x/tools/go/ssa"
	"golang.org/x/tools/go/ssa/ssautil"
)

const modPath = "github.com/jsightapi/jsight-schema-go-library"

var repoDir = envOr("VERIF_REPO", "/repo")
var verifDir = envOr("VERIF_DIR", "/verif")

func envOr(k, d string) string {
	if v := os.Getenv(k); v != "" {
		return v
	}
	return d
}

type Env struct {
	prog          *ssa.Program
	pkgs          []*ssa.Package
	pkgByPath     map[string]*ssa.Package
	runtimeErrorT types.Type
	errorStringT  types.Type // *errors.errorString
	wrapErrorT    types.Type // *fmt.wrapError
	errorIface    *types.Interface
	LoadDur       time.Duration
	Overlay       map[string][]byte
	modInits      []*ssa.Package // module packages in dependency order
	interpPkgs    map[string]bool
}

// harnessOverlay maps every file under /verif/harness/<rel path> to the
// virtual path /repo/<rel path>.
func harnessOverlay() map[string][]byte {
	ov := map[string][]byte{}
	root := filepath.Join(verifDir, "harness")
	filepath.Walk(root, func(p string, info os.FileInfo, err error) error {
		if err != nil || info.IsDir() || !strings.HasSuffix(p, ".go") {
			return nil
		}
		rel, _ := filepath.Rel(root, p)
		b, err := os.ReadFile(p)
		if err == nil {
			ov[filepath.Join(repoDir, rel)] = b
		}
		return nil
	})
	for rel, b := range generatedOverlay() {
		ov[filepath.Join(repoDir, rel)] = b
	}
	return ov
}

func LoadEnv(patterns ...string) (*Env, error) {
	t0 := time.Now()
	ov := harnessOverlay()
	cfg := &packages.Config{
		Mode:       packages.LoadAllSyntax,
		Dir:        repoDir,
		Env:        append(os.Environ(), "GOFLAGS=-mod=mod", "GOPROXY=off", "GOSUMDB=off", "GOTOOLCHAIN=local"),
		BuildFlags: []string{"-tags=verif"},
		Overlay:    ov,
	}
	if len(patterns) == 0 {
		patterns = []string{"./..."}
	}
	pkgs, err := packages.Load(cfg, patterns...)
	if err != nil {
		return nil, err
	}
	nerr := 0
	packages.Visit(pkgs, nil, func(p *packages.Package) {
		for _, e := range p.Errors {
			if strings.HasPrefix(p.PkgPath, modPath) {
				fmt.Fprintln(os.Stderr, "load error:", e)
				nerr++
			}
		}
	})
	if nerr > 0 {
		return nil, fmt.Errorf("%d load errors", nerr)
	}
	prog, spkgs := ssautil.AllPackages(pkgs, ssa.InstantiateGenerics)
	prog.Build()
	env := &Env{prog: prog, pkgByPath: map[string]*ssa.Package{}, Overlay: ov}
	for _, p := range prog.AllPackages() {
		env.pkgByPath[p.Pkg.Path()] = p
	}
	for _, p := range spkgs {
		if p != nil {
			env.pkgs = append(env.pkgs, p)
		}
	}
	if ep := env.pkgByPath["errors"]; ep != nil {
		env.errorStringT = types.NewPointer(ep.Type("errorString").Type())
		env.runtimeErrorT = env.errorStringT
	}
	if fp := env.pkgByPath["fmt"]; fp != nil && fp.Type("wrapError") != nil {
		env.wrapErrorT = types.NewPointer(fp.Type("wrapError").Type())
	}
	env.errorIface = types.Universe.Lookup("error").Type().Underlying().(*types.Interface)
	env.interpPkgs = map[string]bool{
		"bytes": true, "strings": true, "errors": true, "unicode/utf8": true, "unicode/utf16": true,
		"sort": true, "io": true, "unicode": true, "slices": true, "cmp": true,
	}
	// module packages in dependency order for initialisation
	seen := map[*types.Package]bool{}
	var visit func(p *types.Package)
	visit = func(p *types.Package) {
		if seen[p] {
			return
		}
		seen[p] = true
		for _, imp := range p.Imports() {
			visit(imp)
		}
		if strings.HasPrefix(p.Path(), modPath) {
			if sp := env.pkgByPath[p.Path()]; sp != nil {
				env.modInits = append(env.modInits, sp)
			}
		}
	}
	for _, p := range env.pkgs {
		visit(p.Pkg)
	}
	env.LoadDur = time.Since(t0)
	return env, nil
}

func fnPackage(fn *ssa.Function) *ssa.Package {
	if p := fn.Package(); p != nil {
		return p
	}
	if o := fn.Origin(); o != nil {
		if p := o.Package(); p != nil {
			return p
		}
	}
	if fn.Parent() != nil {
		return fnPackage(fn.Parent())
	}
	return nil
}

func (env *Env) inModule(p *ssa.Package) bool {
	return p != nil && strings.HasPrefix(p.Pkg.Path(), modPath)
}

// interpreted reports whether fn is module code, which is always executed
// from SSA without consulting the intrinsic table first. The harness API
// package v is module code by path but handled by intrinsics.
func (env *Env) interpreted(fn *ssa.Function) bool {
	p := fnPackage(fn)
	if p == nil {
		// synthetic wrappers (bound methods, thunks) without package: decide by the method's package
		if fn.Signature.Recv() != nil {
			if n, ok := derefNamed(fn.Signature.Recv().Type()); ok && n.Obj().Pkg() != nil {
				path := n.Obj().Pkg().Path()
				return strings.HasPrefix(path, modPath) && !strings.HasSuffix(path, "/zzverif/v")
			}
		}
		return strings.Contains(fn.String(), modPath) && !strings.Contains(fn.String(), "/zzverif/v.")
	}
	path := p.Pkg.Path()
	return strings.HasPrefix(path, modPath) && !strings.HasSuffix(path, "/zzverif/v")
}

func derefNamed(t types.Type) (*types.Named, bool) {
	if p, ok := t.(*types.Pointer); ok {
		t = p.Elem()
	}
	n, ok := t.(*types.Named)
	return n, ok
}

// runInits executes the package initialisers of the module's packages.
func (ex *Exec) runInits() {
	for _, p := range ex.env.modInits {
		ex.runInit(p)
	}
}

func (ex *Exec) runInit(p *ssa.Package) {
	if ex.initDone[p] {
		return
	}
	ex.initDone[p] = true
	if f := p.Func("init"); f != nil && f.Blocks != nil {
		ex.callInit(f)
	}
}
