package main

import (
	"golang.org/x/tools/go/ssa"
)

func (ex *Exec) stdModel(name string, fn *ssa.Function, args []Val, caller *frame) (Val, bool) {
	return nil, false
}
