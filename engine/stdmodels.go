package main

// Models of heavier library entry points: encoding/json, regexp, time,
// net/mail, net/url, strconv.ParseFloat, reggen, reflect.TypeOf, os.ReadFile.
// Concrete arguments: the real Go function is called natively. Symbolic
// subjects: an uninterpreted predicate over the byte vector (the semantics of
// RE2 / RFC 3339 / RFC 5322 / URLs are trusted to the Go standard library).

import (
	"bytes"
	"encoding/json"
	"fmt"
	"go/types"
	"net/mail"
	"net/url"
	"reflect"
	"regexp"
	"sort"
	"strconv"
	"strings"
	"time"

	"github.com/lucasjones/reggen"
	"golang.org/x/tools/go/ssa"
)

type nativeRegexp struct {
	re  *regexp.Regexp
	src string
	sym []Int // symbolic pattern bytes (re == nil)
}

func (ex *Exec) stdModel(name string, fn *ssa.Function, args []Val, caller *frame) (Val, bool) {
	switch name {
	case "encoding/json.Marshal":
		a := args[0].(iface)
		var buf bytes.Buffer
		if err := ex.jsonMarshal(&buf, a.t, a.v, caller, 0); err != nil {
			return tuple{[]Val(nil), err}, true
		}
		return tuple{sliceOfBytes(strBytes(buf.String())), iface{}}, true
	case "encoding/json.Unmarshal":
		// single use: a JSON string literal into *string
		data := bytesOfSlice(args[0].([]Val))
		dst := args[1].(iface)
		cb, ok := concreteBytes(data)
		if !ok {
			// few symbolic bytes inside a literal: one path per feasible value (decoding depends on the
			// byte class in too many ways to merge); a longer symbolic text stays unsupported
			nsym := 0
			for _, b := range data {
				if b.sym() {
					nsym++
				}
			}
			if nsym > 2 {
				panic(unsupported{"json.Unmarshal of symbolic data"})
			}
			cb = make([]byte, len(data))
			for i, b := range data {
				if b.sym() {
					cb[i] = byte(ex.choose(b))
				} else {
					cb[i] = byte(b.C)
				}
			}
		}
		p, okp := dst.v.(*Val)
		if !okp || p == nil {
			panic(unsupported{"json.Unmarshal target"})
		}
		if _, isStr := (*p).(string); !isStr {
			panic(unsupported{"json.Unmarshal into non-string"})
		}
		var s string
		if err := json.Unmarshal(cb, &s); err != nil {
			return ex.nativeError(err), true
		}
		*p = s
		return iface{}, true
	case "regexp.Compile", "regexp.MustCompile":
		pat, ok := args[0].(string)
		if !ok {
			// symbolic pattern: validity is an uninterpreted predicate of the bytes (RE2 syntax is trusted to the
			// standard library); a valid symbolic pattern can only be matched through another uninterpreted predicate
			pb := strBytes(args[0])
			if ex.decide(ex.ufPredicate("re_valid", pb)) {
				nr := &nativeRegexp{re: nil, src: "<symbolic>", sym: pb}
				if name == "regexp.MustCompile" {
					return ex.nativePtr(nr), true
				}
				return tuple{ex.nativePtr(nr), iface{}}, true
			}
			if name == "regexp.MustCompile" {
				panic(goPanic{iface{t: types.Typ[types.String], v: "regexp: Compile: invalid pattern"}})
			}
			return tuple{(*Val)(nil), ex.errorVal("error parsing regexp")}, true
		}
		re, err := regexp.Compile(pat)
		if name == "regexp.MustCompile" {
			if err != nil {
				panic(goPanic{iface{t: types.Typ[types.String], v: "regexp: Compile(" + strconv.Quote(pat) + "): " + err.Error()}})
			}
			return ex.nativePtr(&nativeRegexp{re: re, src: pat}), true
		}
		if err != nil {
			return tuple{(*Val)(nil), ex.nativeError(err)}, true
		}
		return tuple{ex.nativePtr(&nativeRegexp{re: re, src: pat}), iface{}}, true
	case "(*regexp.Regexp).Match", "(*regexp.Regexp).MatchString":
		nr := ex.nativeOf(args[0]).(*nativeRegexp)
		var subj []Int
		if s, ok := args[1].([]Val); ok {
			subj = bytesOfSlice(s)
		} else {
			subj = strBytes(args[1])
		}
		if nr.re == nil {
			all := append(append([]Int(nil), nr.sym...), subj...)
			return ex.ufPredicate(fmt.Sprintf("re_symmatch_%d", len(nr.sym)), all), true
		}
		if cb, ok := concreteBytes(subj); ok {
			return Bool{C: nr.re.Match(cb)}, true
		}
		return ex.ufPredicate("re_"+sanitize(nr.src), subj), true
	case "(*regexp.Regexp).String":
		return ex.nativeOf(args[0]).(*nativeRegexp).src, true
	case "time.Parse":
		layout, ok := args[0].(string)
		if !ok {
			panic(unsupported{"time.Parse symbolic layout"})
		}
		subj := strBytes(args[1])
		zeroT := zero(fn.Signature.Results().At(0).Type())
		if cb, ok := concreteBytes(subj); ok {
			_, err := time.Parse(layout, string(cb))
			return tuple{zeroT, ex.nativeError(err)}, true
		}
		okb := ex.ufPredicate("time_"+sanitize(layout), subj)
		if ex.decide(okb) {
			return tuple{zeroT, iface{}}, true
		}
		return tuple{zeroT, ex.errorVal("parsing time: cannot parse")}, true
	case "net/mail.ParseAddress":
		subj := strBytes(args[0])
		if cb, ok := concreteBytes(subj); ok {
			_, err := mail.ParseAddress(string(cb))
			return tuple{(*Val)(nil), ex.nativeError(err)}, true
		}
		if ex.decide(ex.ufPredicate("mail_addr", subj)) {
			return tuple{(*Val)(nil), iface{}}, true
		}
		return tuple{(*Val)(nil), ex.errorVal("mail: invalid address")}, true
	case "net/url.ParseRequestURI":
		subj := strBytes(args[0])
		if cb, ok := concreteBytes(subj); ok {
			u, err := url.ParseRequestURI(string(cb))
			if err != nil {
				return tuple{(*Val)(nil), ex.nativeError(err)}, true
			}
			return tuple{ex.nativePtr(u), iface{}}, true
		}
		if ex.decide(ex.ufPredicate("url_requri", subj)) {
			return tuple{ex.nativePtr(&symURL{subj}), iface{}}, true
		}
		return tuple{(*Val)(nil), ex.errorVal("parse: invalid URI for request")}, true
	case "(*net/url.URL).IsAbs":
		switch u := ex.nativeOf(args[0]).(type) {
		case *url.URL:
			return Bool{C: u.IsAbs()}, true
		case *symURL:
			return ex.ufPredicate("url_isabs", u.b), true
		}
	case "(*net/url.URL).Hostname":
		switch u := ex.nativeOf(args[0]).(type) {
		case *url.URL:
			return u.Hostname(), true
		case *symURL:
			// only emptiness is inspected by the library
			if ex.decide(ex.ufPredicate("url_hashost", u.b)) {
				return "host", true
			}
			return "", true
		}
	case "strconv.ParseFloat":
		s, ok := args[0].(string)
		if !ok {
			panic(unsupported{"strconv.ParseFloat symbolic"})
		}
		f, err := strconv.ParseFloat(s, int(args[1].(Int).C))
		return tuple{f, ex.nativeError(err)}, true
	case "reflect.TypeOf":
		a := args[0].(iface)
		if a.t == nil {
			return iface{}, true
		}
		return iface{t: ex.env.errorStringT, v: nativeVal{fmtStringer{typeStr(a.t)}}}, true
	case "os.ReadFile":
		panic(unsupported{"os.ReadFile"})
	case "github.com/lucasjones/reggen.NewGenerator":
		pat, ok := args[0].(string)
		if !ok {
			panic(unsupported{"reggen.NewGenerator symbolic pattern"})
		}
		g, err := newReggen(pat)
		if err != nil {
			return tuple{(*Val)(nil), ex.nativeError(err)}, true
		}
		return tuple{ex.nativePtr(g), iface{}}, true
	case "(*github.com/lucasjones/reggen.Generator).SetSeed":
		ex.nativeOf(args[0]).(*reggenGen).seed = int64(args[1].(Int).C)
		return nil, true
	case "(*github.com/lucasjones/reggen.Generator).Generate":
		g := ex.nativeOf(args[0]).(*reggenGen)
		return g.generate(int(args[1].(Int).C)), true
	}
	return nil, false
}

type symURL struct{ b []Int }

func sanitize(s string) string {
	var sb strings.Builder
	for i := 0; i < len(s); i++ {
		c := s[i]
		if c >= 'a' && c <= 'z' || c >= 'A' && c <= 'Z' || c >= '0' && c <= '9' {
			sb.WriteByte(c)
		} else {
			fmt.Fprintf(&sb, "_%02x", c)
		}
	}
	return sb.String()
}

// nativePtr boxes a native object as a pointer value of the interpreter.
func (ex *Exec) nativePtr(x interface{}) *Val {
	p := new(Val)
	*p = nativeVal{x}
	return p
}

func (ex *Exec) nativeOf(v Val) interface{} {
	p, ok := v.(*Val)
	if !ok || p == nil {
		panic(goPanic{ex.runtimeError("invalid memory address or nil pointer dereference")})
	}
	nv, ok := (*p).(nativeVal)
	if !ok {
		panic(unsupported{"native object expected"})
	}
	return nv.v
}

// ufPredicate applies an uninterpreted predicate (keyed by name and length)
// to a byte vector.
func (ex *Exec) ufPredicate(name string, b []Int) Bool {
	args := make([]*Term, len(b))
	for i, x := range b {
		args[i] = ex.it(x)
	}
	uf := fmt.Sprintf("uf_%s_%d", name, len(b))
	if len(args) == 0 {
		return Bool{T: ex.tb.UF(uf, 0)}
	}
	return Bool{T: ex.tb.UF(uf, 0, args...)}
}

// ---- encoding/json.Marshal over interpreter values (concrete data only)

func (ex *Exec) findMethod(t types.Type, name string) *ssa.Function {
	ms := ex.env.prog.MethodSets.MethodSet(t)
	for i := 0; i < ms.Len(); i++ {
		if ms.At(i).Obj().Name() == name {
			return ex.env.prog.MethodValue(ms.At(i))
		}
	}
	return nil
}

func (ex *Exec) jsonMarshal(buf *bytes.Buffer, t types.Type, v Val, caller *frame, depth int) Val {
	if depth > 200 {
		panic(fuelOut{"json.Marshal depth"})
	}
	if t == nil {
		buf.WriteString("null")
		return nil
	}
	// Marshaler?
	if _, isPtr := t.Underlying().(*types.Pointer); isPtr {
		if p, ok := v.(*Val); ok && p == nil {
			buf.WriteString("null")
			return nil
		}
	}
	if _, isI := t.Underlying().(*types.Interface); !isI {
		if m := ex.findMethod(t, "MarshalJSON"); m != nil {
			r := ex.call(m, []Val{v}, nil, caller).(tuple)
			if e := r[1].(iface); e.t != nil {
				return e
			}
			cb, ok := concreteBytes(bytesOfSlice(r[0].([]Val)))
			if !ok {
				panic(unsupported{"json.Marshal: symbolic MarshalJSON output"})
			}
			var cbuf bytes.Buffer
			if err := json.Compact(&cbuf, cb); err != nil {
				return ex.errorVal("json: error calling MarshalJSON: " + err.Error())
			}
			buf.Write(cbuf.Bytes())
			return nil
		}
	}
	switch u := t.Underlying().(type) {
	case *types.Basic:
		switch x := v.(type) {
		case string:
			js, _ := json.Marshal(x)
			buf.Write(js)
		case symstr:
			// symbolic string content: concretise byte by byte (one path per value class is not
			// possible here because escaping depends on the exact byte)
			b := make([]byte, len(x))
			for i, c := range x {
				b[i] = byte(ex.choose(c))
			}
			js, _ := json.Marshal(string(b))
			buf.Write(js)
		case Int:
			if x.sym() {
				panic(unsupported{"json.Marshal symbolic int"})
			}
			_, signed, _ := intInfo(t)
			if signed {
				buf.WriteString(strconv.FormatInt(x.signed(), 10))
			} else {
				buf.WriteString(strconv.FormatUint(x.C, 10))
			}
		case Bool:
			if x.sym() {
				panic(unsupported{"json.Marshal symbolic bool"})
			}
			buf.WriteString(strconv.FormatBool(x.C))
		case float64:
			js, _ := json.Marshal(x)
			buf.Write(js)
		default:
			panic(unsupported{fmt.Sprintf("json.Marshal basic %T", v)})
		}
	case *types.Struct:
		sv := v.(structure)
		buf.WriteByte('{')
		first := true
		for i := 0; i < u.NumFields(); i++ {
			f := u.Field(i)
			if !f.Exported() {
				continue
			}
			name := f.Name()
			omit := false
			if tag := reflect.StructTag(u.Tag(i)).Get("json"); tag != "" {
				parts := strings.Split(tag, ",")
				if parts[0] == "-" {
					continue
				}
				if parts[0] != "" {
					name = parts[0]
				}
				for _, o := range parts[1:] {
					if o == "omitempty" {
						omit = true
					}
				}
			}
			if omit && jsonEmpty(sv[i]) {
				continue
			}
			if !first {
				buf.WriteByte(',')
			}
			first = false
			js, _ := json.Marshal(name)
			buf.Write(js)
			buf.WriteByte(':')
			if e := ex.jsonMarshal(buf, f.Type(), sv[i], caller, depth+1); e != nil {
				return e
			}
		}
		buf.WriteByte('}')
	case *types.Slice:
		s, _ := v.([]Val)
		if s == nil {
			buf.WriteString("null")
			return nil
		}
		buf.WriteByte('[')
		for i, e := range s {
			if i > 0 {
				buf.WriteByte(',')
			}
			if er := ex.jsonMarshal(buf, u.Elem(), e, caller, depth+1); er != nil {
				return er
			}
		}
		buf.WriteByte(']')
	case *types.Array:
		s := v.(array)
		buf.WriteByte('[')
		for i, e := range s {
			if i > 0 {
				buf.WriteByte(',')
			}
			if er := ex.jsonMarshal(buf, u.Elem(), e, caller, depth+1); er != nil {
				return er
			}
		}
		buf.WriteByte(']')
	case *types.Pointer:
		p := v.(*Val)
		if p == nil {
			buf.WriteString("null")
			return nil
		}
		return ex.jsonMarshal(buf, u.Elem(), *p, caller, depth+1)
	case *types.Interface:
		i := v.(iface)
		if i.t == nil {
			buf.WriteString("null")
			return nil
		}
		return ex.jsonMarshal(buf, i.t, i.v, caller, depth+1)
	case *types.Map:
		m, _ := v.(*gomap)
		if m == nil {
			buf.WriteString("null")
			return nil
		}
		type kv struct {
			k string
			v Val
		}
		var kvs []kv
		for i, k := range m.keys {
			ks, ok := k.(string)
			if !ok {
				panic(unsupported{"json.Marshal map key"})
			}
			kvs = append(kvs, kv{ks, m.vals[i]})
		}
		sort.Slice(kvs, func(i, j int) bool { return kvs[i].k < kvs[j].k })
		buf.WriteByte('{')
		for i, e := range kvs {
			if i > 0 {
				buf.WriteByte(',')
			}
			js, _ := json.Marshal(e.k)
			buf.Write(js)
			buf.WriteByte(':')
			if er := ex.jsonMarshal(buf, u.Elem(), e.v, caller, depth+1); er != nil {
				return er
			}
		}
		buf.WriteByte('}')
	default:
		panic(unsupported{"json.Marshal of " + t.String()})
	}
	return nil
}

func jsonEmpty(v Val) bool {
	switch x := v.(type) {
	case string:
		return x == ""
	case Int:
		return !x.sym() && x.C == 0
	case Bool:
		return !x.sym() && !x.C
	case []Val:
		return len(x) == 0
	case *Val:
		return x == nil
	case iface:
		return x.t == nil
	case *gomap:
		return x == nil || len(x.keys) == 0
	}
	return false
}

// ---- reggen: the real package (a dependency of /repo, present in the module cache) is linked into the engine.

type reggenGen struct {
	pat  string
	seed int64
	g    *reggen.Generator
}

func newReggen(pat string) (*reggenGen, error) {
	g, err := reggen.NewGenerator(pat)
	if err != nil {
		return nil, err
	}
	return &reggenGen{pat: pat, g: g}, nil
}

// generate calls the real generator natively (same module version as /repo uses, same seed => same text).
func (g *reggenGen) generate(limit int) Val {
	g.g.SetSeed(g.seed)
	return g.g.Generate(limit)
}
