package main

// Native replay: a solver model becomes an ordinary run of the same harness
// compiled by the Go toolchain against /repo's current working tree.

import (
	"crypto/sha1"
	"encoding/json"
	"fmt"
	"os"
	"os/exec"
	"path/filepath"
	"strings"
	"sync"
	"time"
)

type ReplayCase struct {
	Harness string         `json:"harness"`
	Label   string         `json:"label"`
	Inputs  []InputVal     `json:"inputs"`
	Params  map[string]int `json:"params"`
	PBytes  map[string][]byte `json:"pbytes,omitempty"`
}

type ReplayResult struct {
	Failed   []string          `json:"failed"`
	Assumes  int               `json:"assumes"`
	Reached  []string          `json:"reached"`
	Observed map[string]string `json:"observed"`
	Panic    string            `json:"panic"`
	Underrun bool              `json:"underrun"`
	Keys     []string          `json:"keys"`
}

type nativeBuilder struct {
	mu      sync.Mutex
	bins    map[string]string // package import path -> test binary
	workDir string
	BuildS  float64
}

func newNativeBuilder() *nativeBuilder {
	d, err := os.MkdirTemp("/var/tmp", "gosym-native-")
	if err != nil {
		d, _ = os.MkdirTemp("", "gosym-native-")
	}
	return &nativeBuilder{bins: map[string]string{}, workDir: d}
}

func (nb *nativeBuilder) Close() { os.RemoveAll(nb.workDir) }

func pkgOfHarness(h string) string { return h[:strings.LastIndex(h, ".")] }

// isRaceLabel: violations of the lock discipline are confirmed by the race detector.
func isRaceLabel(l string) bool { return strings.HasPrefix(l, "C19/lock-discipline") }

// binary builds (once per run) the native test binary of the harness package.
func (nb *nativeBuilder) binary(pkg string) (string, error) { return nb.binaryMode(pkg, false) }

// binaryMode: race=true builds the same test binary with the race detector.
func (nb *nativeBuilder) binaryMode(pkg string, race bool) (string, error) {
	nb.mu.Lock()
	defer nb.mu.Unlock()
	cacheKey := pkg
	if race {
		cacheKey += "|race"
	}
	if b, ok := nb.bins[cacheKey]; ok {
		return b, nil
	}
	t0 := time.Now()
	rel := strings.TrimPrefix(strings.TrimPrefix(pkg, modPath), "/")
	pkgDir := filepath.Join(repoDir, rel)
	// package name: from any harness file in that dir
	pkgName := ""
	ents, _ := os.ReadDir(filepath.Join(verifDir, "harness", rel))
	for _, e := range ents {
		if strings.HasSuffix(e.Name(), ".go") {
			b, _ := os.ReadFile(filepath.Join(verifDir, "harness", rel, e.Name()))
			for _, line := range strings.Split(string(b), "\n") {
				if strings.HasPrefix(line, "package ") {
					pkgName = strings.TrimSpace(strings.TrimPrefix(line, "package "))
					break
				}
			}
			if pkgName != "" {
				break
			}
		}
	}
	if pkgName == "" {
		return "", fmt.Errorf("no harness files for %s", pkg)
	}
	testSrc := fmt.Sprintf(`//go:build verif

package %s

import (
	"testing"

	"%s/zzverif/v"
)

func TestZZVerifReplay(t *testing.T) {
	if v.RunReplay(ZZHarnesses) != 0 {
		t.Fatal("replay failed")
	}
}
`, pkgName, modPath)
	id := fmt.Sprintf("%x", sha1.Sum([]byte(cacheKey)))[:10]
	testFile := filepath.Join(nb.workDir, "zz_replay_"+id+"_test.go")
	os.WriteFile(testFile, []byte(testSrc), 0o644)
	ov := map[string]string{filepath.Join(pkgDir, "zz_verif_replay_test.go"): testFile}
	root := filepath.Join(verifDir, "harness")
	filepath.Walk(root, func(p string, info os.FileInfo, err error) error {
		if err != nil || info.IsDir() || !strings.HasSuffix(p, ".go") {
			return nil
		}
		r, _ := filepath.Rel(root, p)
		ov[filepath.Join(repoDir, r)] = p
		return nil
	})
	for rel, b := range generatedOverlay() {
		g := filepath.Join(nb.workDir, "gen_"+strings.ReplaceAll(rel, "/", "_"))
		os.WriteFile(g, b, 0o644)
		ov[filepath.Join(repoDir, rel)] = g
	}
	ovJSON, _ := json.Marshal(map[string]interface{}{"Replace": ov})
	ovFile := filepath.Join(nb.workDir, "overlay_"+id+".json")
	os.WriteFile(ovFile, ovJSON, 0o644)
	bin := filepath.Join(nb.workDir, "replay_"+id+".test")
	target := "./" + rel
	if rel == "" {
		target = "."
	}
	args := []string{"test", "-c", "-tags", "verif", "-vet=off", "-overlay", ovFile, "-o", bin}
	if race {
		args = append(args, "-race")
	}
	cmd := exec.Command("go", append(args, target)...)
	cmd.Dir = repoDir
	cmd.Env = append(os.Environ(), "GOFLAGS=-mod=mod", "GOPROXY=off", "GOSUMDB=off", "GOTOOLCHAIN=local")
	out, err := cmd.CombinedOutput()
	nb.BuildS += time.Since(t0).Seconds()
	if err != nil {
		return "", fmt.Errorf("native build of %s failed: %v\n%s", pkg, err, out)
	}
	nb.bins[cacheKey] = bin
	return bin, nil
}

// Replay runs the cases (all of one package) natively.
func (nb *nativeBuilder) Replay(cases []ReplayCase) ([]ReplayResult, error) {
	if len(cases) == 0 {
		return nil, nil
	}
	pkg := pkgOfHarness(cases[0].Harness)
	race := isRaceLabel(cases[0].Label)
	bin, err := nb.binaryMode(pkg, race)
	if err != nil {
		return nil, err
	}
	js, _ := json.Marshal(cases)
	in, _ := os.CreateTemp(nb.workDir, "in-*.json")
	in.Write(js)
	in.Close()
	outPath := in.Name() + ".out"
	cmd := exec.Command(bin, "-test.run", "^TestZZVerifReplay$", "-test.timeout", "120s")
	cmd.Dir = nb.workDir
	cmd.Env = append(os.Environ(), "VERIF_REPLAY="+in.Name(), "VERIF_RESULT="+outPath)
	if race {
		cmd.Env = append(cmd.Env, "VERIF_RACE=1", "GORACE=halt_on_error=1 exitcode=66")
	}
	out, rerr := cmd.CombinedOutput()
	data, err := os.ReadFile(outPath)
	os.Remove(in.Name())
	os.Remove(outPath)
	if err != nil {
		// the whole process died (stack overflow, fatal error, timeout): run cases one by one
		if len(cases) > 1 {
			var all []ReplayResult
			for _, c := range cases {
				r, e := nb.Replay([]ReplayCase{c})
				if e != nil {
					return nil, e
				}
				all = append(all, r...)
			}
			return all, nil
		}
		msg := string(out)
		if len(msg) > 600 {
			msg = msg[:600]
		}
		return []ReplayResult{{Panic: fmt.Sprintf("process died: %v: %s", rerr, msg)}}, nil
	}
	var res []ReplayResult
	if err := json.Unmarshal(data, &res); err != nil {
		return nil, err
	}
	if len(res) != len(cases) {
		return nil, fmt.Errorf("replay: %d results for %d cases", len(res), len(cases))
	}
	return res, nil
}
