package main

// One long-lived solver process per worker, SMT-LIB2 over a pipe.

import (
	"bufio"
	"os"
	"fmt"
	"io"
	"os/exec"
	"strconv"
	"strings"
	"time"
)

type Solver struct {
	cmd     *exec.Cmd
	in      io.WriteCloser
	out     *bufio.Reader
	Queries int
	Dur     time.Duration
	Errors  int // "(error" lines or unknowns seen
	Unknown int
	log     io.Writer
	depth   int
	argv    []string
	// solver-diff sampling: transcript of the current path and sampled complete scripts
	transcript  strings.Builder
	SampleEvery int
	Samples     []DiffSample
	// the process is started at the first query; text sent before that is kept here
	pend strings.Builder
}

// DiffSample is one complete, self-contained query with the answer of the main solver.
type DiffSample struct {
	Script string
	Answer string
}

func NewSolver(argv ...string) *Solver {
	if len(argv) == 0 {
		argv = defaultSolver()
	}
	s := &Solver{argv: argv}
	if p := os.Getenv("GOSYM_SMTLOG"); p != "" {
		f, _ := os.OpenFile(p, os.O_CREATE|os.O_WRONLY|os.O_APPEND, 0o644)
		s.log = f
	}
	return s
}

// ensure starts the solver process (paths without symbolic branches never need one).
func (s *Solver) ensure() {
	if s.cmd == nil {
		s.start()
		io.WriteString(s.in, s.pend.String())
		s.pend.Reset()
	}
}

func (s *Solver) start() {
	cmd := exec.Command(s.argv[0], s.argv[1:]...)
	in, _ := cmd.StdinPipe()
	out, _ := cmd.StdoutPipe()
	cmd.Stderr = nil
	if err := cmd.Start(); err != nil {
		panic(err)
	}
	s.cmd, s.in, s.out = cmd, in, bufio.NewReaderSize(out, 1<<16)
	if strings.Contains(s.argv[0], "z3") {
		io.WriteString(s.in, "(set-option :timeout 20000)\n")
	}
}

func (s *Solver) Close() {
	if s.cmd != nil {
		s.in.Close()
		s.cmd.Process.Kill()
		s.cmd.Wait()
		s.cmd = nil
	}
}

func (s *Solver) Restart() { s.Close(); s.depth = 0; s.pend.Reset(); s.start() }

func (s *Solver) Send(x string) {
	if s.log != nil {
		io.WriteString(s.log, x)
	}
	if s.SampleEvery > 0 && s.depth > 0 {
		s.transcript.WriteString(x)
	}
	if s.cmd == nil {
		s.pend.WriteString(x)
		return
	}
	io.WriteString(s.in, x)
}

func (s *Solver) Push() {
	if s.depth == 0 {
		s.transcript.Reset()
	}
	s.depth++
	s.Send("(push 1)\n")
}
func (s *Solver) Pop() {
	s.Send("(pop 1)\n")
	s.depth--
	if s.depth == 0 && s.cmd == nil {
		s.pend.Reset() // a whole path went by without a query
	}
}

func (s *Solver) readLine() string {
	for {
		line, err := s.out.ReadString('\n')
		if err != nil {
			return "eof"
		}
		line = strings.TrimSpace(line)
		if line == "" {
			continue
		}
		return line
	}
}

// Check asserts extra (may be "") in a scratch frame and returns
// "sat" / "unsat" / "unknown". When vars is non-empty and the answer is sat,
// the model values of vars are returned.
func (s *Solver) Check(extra string, vars []*Term) (string, Witness) {
	t0 := time.Now()
	s.Queries++
	var b strings.Builder
	b.WriteString("(push 1)\n")
	if extra != "" {
		b.WriteString("(assert " + extra + ")\n")
	}
	b.WriteString("(check-sat)\n")
	s.ensure()
	s.Send(b.String())
	res := s.readLine()
	for strings.HasPrefix(res, "(error") {
		s.Errors++
		res = s.readLine()
		if res == "eof" {
			break
		}
	}
	var w Witness
	if res == "sat" && len(vars) > 0 {
		var g strings.Builder
		g.WriteString("(get-value (")
		for _, v := range vars {
			g.WriteString(v.Name)
			g.WriteByte(' ')
		}
		g.WriteString("))\n")
		s.Send(g.String())
		w = s.readValues(len(vars))
	}
	s.Send("(pop 1)\n")
	s.Dur += time.Since(t0)
	if s.SampleEvery > 0 && s.Queries%s.SampleEvery == 0 && len(s.Samples) < 12 && (res == "sat" || res == "unsat") {
		// the transcript ends with "(push 1)(assert extra)(check-sat)[(get-value ..)](pop 1)": cut after (check-sat)
		t := s.transcript.String()
		if i := strings.LastIndex(t, "(check-sat)"); i >= 0 {
			s.Samples = append(s.Samples, DiffSample{Script: t[:i+len("(check-sat)")] + "\n", Answer: res})
		}
	}
	if res != "sat" && res != "unsat" {
		s.Unknown++
		if res == "eof" {
			s.Restart()
		}
		return "unknown", nil
	}
	return res, w
}

// readValues parses ((name #xHH) (name #b01) (name true) ...) possibly
// spread over several lines.
func (s *Solver) readValues(n int) Witness {
	w := Witness{}
	var buf strings.Builder
	depth := 0
	started := false
	for {
		line, err := s.out.ReadString('\n')
		if err != nil {
			break
		}
		buf.WriteString(line)
		for _, c := range line {
			if c == '(' {
				depth++
				started = true
			} else if c == ')' {
				depth--
			}
		}
		if started && depth <= 0 {
			break
		}
	}
	txt := buf.String()
	if strings.HasPrefix(strings.TrimSpace(txt), "(error") {
		s.Errors++
		return w
	}
	// tokenise
	txt = strings.NewReplacer("(", " ( ", ")", " ) ").Replace(txt)
	f := strings.Fields(txt)
	for i := 0; i+3 < len(f); i++ {
		if f[i] == "(" && f[i+1] != "(" && f[i+3] == ")" {
			name, val := f[i+1], f[i+2]
			switch {
			case strings.HasPrefix(val, "#x"):
				u, _ := strconv.ParseUint(val[2:], 16, 64)
				w[name] = u
			case strings.HasPrefix(val, "#b"):
				u, _ := strconv.ParseUint(val[2:], 2, 64)
				w[name] = u
			case val == "true":
				w[name] = 1
			case val == "false":
				w[name] = 0
			}
			i += 3
		} else if f[i] == "(" && f[i+1] != "(" && i+6 < len(f) && f[i+2] == "(" && f[i+3] == "_" {
			// (name (_ bvN w))
			name := f[i+1]
			u, _ := strconv.ParseUint(strings.TrimPrefix(f[i+4], "bv"), 10, 64)
			w[name] = u
			i += 6
		}
	}
	_ = fmt.Sprint
	return w
}

var solverOnce []string

// defaultSolver: GOSYM_SOLVER overrides; otherwise z3-new (5.1.0) when present
// (about an order of magnitude faster on the incremental push/pop workload
// than z3 4.8.12), else z3.
func defaultSolver() []string {
	if solverOnce != nil {
		return solverOnce
	}
	if v := os.Getenv("GOSYM_SOLVER"); v != "" {
		solverOnce = strings.Fields(v)
		return solverOnce
	}
	if p, err := exec.LookPath("z3-new"); err == nil {
		solverOnce = []string{p, "-in"}
		return solverOnce
	}
	solverOnce = []string{"z3", "-in"}
	return solverOnce
}

// RunDiff re-decides sampled queries with other solvers and reports disagreements.
func RunDiff(samples []DiffSample) (checked int, disagreements []string) {
	type alt struct {
		name string
		argv []string
		pre  string
	}
	var alts []alt
	if p, err := exec.LookPath("z3"); err == nil {
		alts = append(alts, alt{"z3-4.8.12", []string{p, "-in", "-T:20"}, ""})
	}
	if p, err := exec.LookPath("cvc5"); err == nil {
		alts = append(alts, alt{"cvc5", []string{p, "--incremental", "--lang=smt2", "--tlimit=20000"}, "(set-logic ALL)\n"})
	}
	for _, sm := range samples {
		for _, a := range alts {
			cmd := exec.Command(a.argv[0], a.argv[1:]...)
			cmd.Stdin = strings.NewReader(a.pre + sm.Script)
			out, _ := cmd.Output()
			ans := ""
			for _, l := range strings.Split(string(out), "\n") {
				l = strings.TrimSpace(l)
				if l == "sat" || l == "unsat" || l == "unknown" {
					ans = l
				}
				if strings.HasPrefix(l, "(error") {
					ans = "error"
					break
				}
			}
			checked++
			if (ans == "sat" || ans == "unsat") && ans != sm.Answer {
				disagreements = append(disagreements, a.name+" says "+ans+" where the main solver said "+sm.Answer)
			}
		}
	}
	return
}
