package main

// Interception of the harness API (package zzverif/v).

import (
	"fmt"
	"go/types"
	"strings"

	"golang.org/x/tools/go/ssa"
)

func (ex *Exec) vcall(name string, fn *ssa.Function, args []Val, caller *frame) Val {
	tb := ex.tb
	switch name {
	case "Byte":
		return ex.mkI(ex.newInput("b", 8))
	case "Bytes":
		n := int(ex.choose(args[0].(Int)))
		out := make([]Val, n)
		for i := range out {
			out[i] = ex.mkI(ex.newInput("b", 8))
		}
		return out
	case "Int", "Choose":
		lo, hi := args[0].(Int), args[1].(Int)
		if lo.sym() || hi.sym() {
			panic(unsupported{"v.Int with symbolic bounds"})
		}
		kind := "i"
		if name == "Choose" {
			kind = "c"
		}
		t := ex.newInput(kind, 64)
		if lo.signed() == hi.signed() {
			// still consume an input slot for replay alignment
			ex.addPC(tb.Eq(t, tb.Const(lo.C, 64)))
			return lo
		}
		ex.assume(ex.mkB(tb.And(tb.Bin(OpSle, tb.Const(lo.C, 64), t), tb.Bin(OpSle, t, tb.Const(hi.C, 64)))))
		if name == "Choose" {
			return mkInt(64, ex.choose(Int{W: 64, T: t}))
		}
		return Int{W: 64, T: t}
	case "Bool":
		return Bool{T: ex.newInput("t", 0)}
	case "Assume":
		ex.assume(args[0].(Bool))
		return nil
	case "Assert":
		ex.assert(args[0].(Bool), ex.mustStr(args[1], "v.Assert label"))
		return nil
	case "Fail":
		ex.violation(ex.mustStr(args[0], "v.Fail label"), "", ex.witness)
		panic(pathEnd{"violation"})
	case "Reach":
		ex.res.Reached = append(ex.res.Reached, ex.mustStr(args[0], "v.Reach label"))
		return nil
	case "Observe":
		ex.obs = append(ex.obs, obsRec{ex.mustStr(args[0], "v.Observe label"), snapshotVal(args[1])})
		return nil
	case "Key":
		ex.res.Keys = append(ex.res.Keys, ex.mustStr(args[0], "v.Key"))
		return nil
	case "Param":
		n := ex.mustStr(args[0], "v.Param name")
		if x, ok := ex.run.Params[n]; ok {
			return mkInt(64, uint64(int64(x)))
		}
		return args[1]
	case "RaceProbe":
		return nil
	case "ParamBytes":
		n := ex.mustStr(args[0], "v.ParamBytes name")
		b := ex.run.PBytes[n]
		out := make([]Val, len(b))
		for i, c := range b {
			out[i] = mkInt(8, uint64(c))
		}
		return out
	case "Concrete":
		return mkInt(64, ex.choose(args[0].(Int)))
	case "ConcreteBytes":
		s, _ := args[0].([]Val)
		for i, e := range s {
			if x := e.(Int); x.sym() {
				s[i] = mkInt(8, ex.choose(x))
			}
		}
		return s
	case "FuncName":
		a := args[0].(iface)
		if a.t == nil {
			return "nil"
		}
		switch f := a.v.(type) {
		case *ssa.Function:
			if f == nil {
				return "nil"
			}
			return funcDisplayName(f)
		case *closure:
			return funcDisplayName(f.Fn)
		}
		return "nil"
	case "MapOrder":
		ex.mapMode = int(ex.choose(args[0].(Int)))
		ex.mapSite = int(ex.choose(args[1].(Int)))
		ex.mapSites = 0
		return nil
	case "MapSites":
		return mkInt(64, uint64(ex.mapSites))
	case "TypeOf":
		a := args[0].(iface)
		if a.t == nil {
			return "<nil>"
		}
		return typeStr(a.t)
	case "IsSymbolic":
		return Bool{C: true}
	case "Show":
		return ex.showObs(args[0])
	}
	panic(unsupported{"v." + name})
}

// funcDisplayName mimics runtime.FuncForPC(...).Name() with the import path
// directory stripped ("pkg.(*T).method", "pkg.func", "pkg.outer.func1").
func funcDisplayName(f *ssa.Function) string {
	if strings.HasSuffix(f.Name(), "$bound") {
		// bound method closure: report the method
		if len(f.FreeVars) == 1 {
			recv := f.FreeVars[0].Type()
			mname := strings.TrimSuffix(f.Name(), "$bound")
			return relType(recv, mname)
		}
	}
	if f.Signature.Recv() != nil {
		return relType(f.Signature.Recv().Type(), f.Name())
	}
	name := f.Name()
	if p := f.Parent(); p != nil {
		// anonymous function: parent.funcN
		return funcDisplayName(p) + "." + strings.ReplaceAll(name[strings.LastIndex(name, "$")+1:], "$", ".func")
	}
	if pk := fnPackage(f); pk != nil {
		return pk.Pkg.Name() + "." + name
	}
	return name
}

func relType(recv types.Type, method string) string {
	ptr := false
	if p, ok := recv.(*types.Pointer); ok {
		ptr = true
		recv = p.Elem()
	}
	n, ok := recv.(*types.Named)
	if !ok {
		return method
	}
	pk := ""
	if n.Obj().Pkg() != nil {
		pk = n.Obj().Pkg().Name() + "."
	}
	if ptr {
		return pk + "(*" + n.Obj().Name() + ")." + method
	}
	return pk + n.Obj().Name() + "." + method
}

type obsRec struct {
	label string
	v     Val
}

func snapshotVal(a Val) Val {
	if x, ok := a.(iface); ok {
		if s, ok := x.v.([]Val); ok {
			return iface{t: x.t, v: append([]Val(nil), s...)}
		}
	}
	return a
}

func (ex *Exec) renderObs(w Witness) map[string]string {
	saved := ex.witness
	ex.setWitness(w)
	out := map[string]string{}
	for _, o := range ex.obs {
		out[o.label] = ex.showObs(o.v)
	}
	ex.setWitness(saved)
	return out
}

// showObs renders like v.Show does natively. Symbolic parts are rendered
// under the current witness.
func (ex *Exec) showObs(a Val) string {
	x, ok := a.(iface)
	if !ok {
		return showVal(a)
	}
	if x.t == nil {
		return "nil"
	}
	conc := func(i Int) uint64 {
		if !i.sym() {
			return i.C
		}
		v, _ := ex.tb.Eval(i.T, ex.witness)
		return v
	}
	switch v := x.v.(type) {
	case string:
		return fmt.Sprintf("%q", v)
	case symstr:
		b := make([]byte, len(v))
		for i, e := range v {
			b[i] = byte(conc(e))
		}
		return fmt.Sprintf("%q", string(b))
	case opaqueStr:
		return "<opaque>"
	case Int:
		_, signed, _ := intInfo(x.t)
		c := conc(v)
		if signed {
			return fmt.Sprintf("%d", sextw(c, v.W))
		}
		return fmt.Sprintf("%d", c)
	case Bool:
		if v.sym() {
			w, _ := ex.tb.Eval(v.T, ex.witness)
			return fmt.Sprintf("%v", w != 0)
		}
		return fmt.Sprintf("%v", v.C)
	case []Val:
		if sl, ok := x.t.Underlying().(*types.Slice); ok {
			if w, _, isInt := intInfo(sl.Elem()); isInt && w == 8 {
				b := make([]byte, len(v))
				for i, e := range v {
					b[i] = byte(conc(e.(Int)))
				}
				return fmt.Sprintf("%q", string(b))
			}
			if isString(sl.Elem()) {
				ss := make([]string, len(v))
				for i, e := range v {
					switch s := e.(type) {
					case string:
						ss[i] = s
					case symstr:
						b := make([]byte, len(s))
						for j, c := range s {
							b[j] = byte(conc(c))
						}
						ss[i] = string(b)
					}
				}
				return fmt.Sprintf("%q", ss)
			}
			if _, _, isInt := intInfo(sl.Elem()); isInt {
				is := make([]int, len(v))
				for i, e := range v {
					is[i] = int(int64(conc(e.(Int))))
				}
				return fmt.Sprintf("%v", is)
			}
		}
	}
	if types.Implements(x.t, ex.env.errorIface) {
		return "error"
	}
	return typeStr(x.t)
}
