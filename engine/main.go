package main

import (
	"sort"
	"encoding/json"
	"fmt"
	"os"
	"strconv"
	"strings"
)

func main() {
	if len(os.Args) < 2 {
		fmt.Println("usage: check <ID> --tier quick|thorough | check run <pkg.Func> [k=v ...]")
		os.Exit(2)
	}
	switch os.Args[1] {
	case "run":
		env, err := LoadEnv()
		if err != nil {
			fmt.Println("load:", err)
			os.Exit(2)
		}
		fmt.Fprintf(os.Stderr, "loaded in %.1fs\n", env.LoadDur.Seconds())
		h := os.Args[2]
		if strings.HasPrefix(h, ".") {
			h = modPath + h
		} else if !strings.HasPrefix(h, modPath) {
			h = modPath + "/" + h
		}
		r := &Run{Env: env, Harness: h, Params: map[string]int{}}
		autoStates := 0
		corpusKind := ""
		for _, a := range os.Args[3:] {
			kv := strings.SplitN(a, "=", 2)
			switch kv[0] {
			case "workers":
				r.Workers, _ = strconv.Atoi(kv[1])
			case "maxpaths":
				r.MaxPaths, _ = strconv.Atoi(kv[1])
			case "corpus":
				corpusKind = kv[1]
			case "auto":
				autoStates, _ = strconv.Atoi(kv[1])
			case "nomerge":
				r.MergeOff = true
			case "maporder":
				r.MapOrder = kv[1]
			case "lockdisc":
				r.LockDisc = true
			case "pooldrain":
				r.PoolDrain = true
			case "fuel":
				f, _ := strconv.Atoi(kv[1])
				r.Fuel = int64(f)
			default:
				n, _ := strconv.Atoi(kv[1])
				r.Params[kv[0]] = n
			}
		}
		if autoStates > 0 {
			r = exploreAutomaton(r, autoStates)
		} else if corpusKind != "" {
			r = exploreCorpusLoop(r, corpusKind)
		} else {
			r.Explore()
		}
		fmt.Println(r.Summary())
		for k, n := range r.Reached {
			fmt.Printf("  reach %s: %d\n", k, n)
		}
		if os.Getenv("GOSYM_KEYS") != "" {
			var ks []string
			for k := range r.Keys {
				ks = append(ks, k)
			}
			sort.Strings(ks)
			for _, k := range ks {
				fmt.Printf("  key %s\n", k)
			}
		}
		for k, n := range r.Inconcl {
			fmt.Printf("  INCONCLUSIVE %s: %d\n", k, n)
		}
		for i, v := range r.Violations {
			if i >= 10 {
				break
			}
			fmt.Printf("  VIOLATION %s %s inputs=%s obs=%v\n", v.Label, v.Detail, renderInputs(v.Inputs), v.Observe)
		}
	case "selfcheck":
		env, err := LoadEnv()
		if err != nil {
			fmt.Println("load:", err)
			os.Exit(2)
		}
		nb := newNativeBuilder()
		defer nb.Close()
		limit := 0
		if len(os.Args) > 2 {
			limit, _ = strconv.Atoi(os.Args[2])
		}
		res, viol := runCorpus(env, nb, modPath+"/notations/jschema/zzverif.ZZSelfCorpus", limit)
		js, _ := json.MarshalIndent(res, "", " ")
		fmt.Println(string(js))
		for _, v := range viol {
			fmt.Printf("expectation failed in engine: %v\n", v.Observe)
		}
		if len(res.Mismatches) > 0 || len(res.EngineFail) > 0 {
			os.Exit(1)
		}
	case "replay":
		data, err := os.ReadFile(os.Args[2])
		if err != nil {
			fmt.Println(err)
			os.Exit(2)
		}
		var cases []ReplayCase
		if err := json.Unmarshal(data, &cases); err != nil {
			fmt.Println(err)
			os.Exit(2)
		}
		nb := newNativeBuilder()
		defer nb.Close()
		res, err := nb.Replay(cases)
		if err != nil {
			fmt.Println(err)
			os.Exit(2)
		}
		bad := false
		for i, r := range res {
			fmt.Printf("%s %s inputs=%s\n  failed=%v panic=%q observed=%v\n", cases[i].Harness, cases[i].Label, renderInputs(cases[i].Inputs), r.Failed, r.Panic, r.Observed)
			if len(r.Failed) > 0 || r.Panic != "" {
				bad = true
			}
		}
		if bad {
			os.Exit(1)
		}
	default:
		os.Exit(runCheck(os.Args[1:]))
	}
}

func renderInputs(in []InputVal) string {
	var sb strings.Builder
	var bs []byte
	flush := func() {
		if len(bs) > 0 {
			fmt.Fprintf(&sb, "%q ", string(bs))
			bs = nil
		}
	}
	for _, x := range in {
		if x.Kind == "b" {
			bs = append(bs, byte(x.V))
			continue
		}
		flush()
		fmt.Fprintf(&sb, "%s=%d ", x.Kind, int64(x.V))
	}
	flush()
	return sb.String()
}
